#!/bin/sh
# Build /repo (or $VERIF_REPO) with cmake+ninja in a scratch directory with the guard OFF and run the 26 pinned tests.
set -e
R=${VERIF_REPO:-/repo}
B=$(mktemp -d ${TMPDIR:-/tmp}/nsync-baseline.XXXXXX)
trap 'rm -rf "$B"' EXIT
cmake -G Ninja -S "$R" -B "$B" -DCMAKE_BUILD_TYPE=Release >/dev/null
cmake --build "$B" >/dev/null
ctest --test-dir "$B" -j8 --timeout 900 --output-junit "$B/junit.xml" | tail -5
