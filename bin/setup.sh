#!/bin/sh
# Nothing persistent is built: every check rebuilds nsync and its scenario programs from
# /repo's working tree into a scratch directory.  Only verify the toolchain is present.
set -e
cd "$(dirname "$0")/.."
for t in gcc g++ ar python3; do command -v $t >/dev/null || { echo "missing tool: $t"; exit 1; }; done
echo 'int main(void){return 0;}' > /tmp/nsv-setup-$$.c
gcc -fsanitize=thread -o /tmp/nsv-setup-$$ /tmp/nsv-setup-$$.c && /tmp/nsv-setup-$$
gcc -fsanitize=address,undefined -o /tmp/nsv-setup-$$ /tmp/nsv-setup-$$.c && /tmp/nsv-setup-$$
rm -f /tmp/nsv-setup-$$ /tmp/nsv-setup-$$.c
mkdir -p out evidence
echo setup ok
