#!/bin/bash
# usage: build.sh <outdir> <srcroot> <extra cflags...>
set -e
out=$1; R=$2; shift 2
mkdir -p $out
INC="${PREINC} -I$R/platform/linux -I$R/platform/gcc -I$R/platform/posix -I$R/platform/x86_64 -I$R/public -I$R/internal"
SRCS="internal/common.c internal/counter.c internal/cv.c internal/debug.c internal/dll.c internal/mu.c internal/mu_wait.c internal/note.c internal/once.c internal/sem_wait.c internal/time_internal.c internal/wait.c platform/posix/src/nsync_panic.c platform/posix/src/per_thread_waiter.c platform/posix/src/time_rep.c platform/posix/src/yield.c ${SEM:-platform/linux/src/nsync_semaphore_futex.c}"
objs=""
for s in $SRCS; do o=$out/$(basename $s .c).o; ${CC:-gcc} -pthread -g -O1 -fno-omit-frame-pointer $INC "$@" -c $R/$s -o $o & objs="$objs $o"; done
wait
rm -f $out/libnsync.a; ar rcs $out/libnsync.a $objs
echo built $out
