#!/bin/bash
# usage: buildcpp.sh <outdir> <srcroot> <extra flags...>
set -e
out=$1; R=$2; shift 2
mkdir -p $out
INC="${PREINC} -I$R/platform/c++11.futex -I$R/platform/c++11 -I$R/platform/gcc -I$R/platform/posix -I$R/platform/x86_64 -I$R/public -I$R/internal"
SRCS="internal/common.c internal/counter.c internal/cv.c internal/debug.c internal/dll.c internal/mu.c internal/mu_wait.c internal/note.c internal/once.c internal/sem_wait.c internal/time_internal.c internal/wait.c platform/linux/src/nsync_semaphore_futex.c platform/posix/src/per_thread_waiter.c platform/c++11/src/yield.cc platform/c++11/src/time_rep_timespec.cc platform/c++11/src/nsync_panic.cc"
objs=""
for s in $SRCS; do b=$(basename $s); o=$out/${b%.*}.o; g++ -x c++ -std=c++11 -pthread -g -O1 -fno-omit-frame-pointer -DNSYNC_USE_CPP11_TIMEPOINT -DNSYNC_ATOMIC_CPP11 $INC "$@" -c $R/$s -o $o & objs="$objs $o"; done
wait
rm -f $out/libnsync_cpp.a; ar rcs $out/libnsync_cpp.a $objs
echo built $out
