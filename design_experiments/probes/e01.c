#define _GNU_SOURCE
#include <pthread.h>
#include <stdio.h>
#include <stdlib.h>
#include <unistd.h>
#include <errno.h>
#include <string.h>
#include "nsync.h"
static nsync_mu mu; static nsync_cv cv; static int W, R; static long viol; static volatile int stop; static long ops[32]; static int val; static int NT=6;
static void enter_w(void){ int w=__atomic_add_fetch(&W,1,__ATOMIC_RELAXED); int r=__atomic_load_n(&R,__ATOMIC_RELAXED); if(w!=1||r!=0){ __atomic_add_fetch(&viol,1,__ATOMIC_RELAXED); fprintf(stderr,"VIOL enter_w w=%d r=%d word=%x\n",w,r,*(unsigned*)&mu);} }
static void leave_w(void){ __atomic_sub_fetch(&W,1,__ATOMIC_RELAXED);} 
static void enter_r(void){ __atomic_add_fetch(&R,1,__ATOMIC_RELAXED); int w=__atomic_load_n(&W,__ATOMIC_RELAXED); if(w!=0){ __atomic_add_fetch(&viol,1,__ATOMIC_RELAXED); fprintf(stderr,"VIOL enter_r w=%d word=%x\n",w,*(unsigned*)&mu);} }
static void leave_r(void){ __atomic_sub_fetch(&R,1,__ATOMIC_RELAXED);} 
static int val_ge(const void*v){ if(__atomic_load_n(&W,__ATOMIC_RELAXED)!=0){ __atomic_add_fetch(&viol,1,__ATOMIC_RELAXED); fprintf(stderr,"VIOL cond eval with writer inside\n"); } return val >= (int)(long)v; }
static void *w(void *a){ long id=(long)a; unsigned s=id*7919+17; while(!stop){ s=s*1103515245+12345; int k=(s>>16)%12; unsigned us=(s>>8)%200; nsync_time dl=nsync_time_add(nsync_time_now(),nsync_time_us(us));
  switch(k){
  case 0: case 1: nsync_mu_lock(&mu); enter_w(); val=(val+1)%4; leave_w(); nsync_mu_unlock(&mu); break;
  case 2: case 3: nsync_mu_rlock(&mu); enter_r(); leave_r(); nsync_mu_runlock(&mu); break;
  case 4: if(nsync_mu_trylock(&mu)){ enter_w(); val=(val+1)%4; leave_w(); nsync_mu_unlock(&mu);} break;
  case 5: if(nsync_mu_rtrylock(&mu)){ enter_r(); leave_r(); nsync_mu_runlock(&mu);} break;
  case 6: nsync_mu_lock(&mu); enter_w(); leave_w(); nsync_cv_wait_with_deadline(&cv,&mu,dl,NULL); enter_w(); leave_w(); nsync_mu_unlock(&mu); break;
  case 7: nsync_mu_rlock(&mu); enter_r(); leave_r(); nsync_cv_wait_with_deadline(&cv,&mu,dl,NULL); enter_r(); leave_r(); nsync_mu_runlock(&mu); break;
  case 8: nsync_mu_lock(&mu); enter_w(); leave_w(); { int r=nsync_mu_wait_with_deadline(&mu,val_ge,(void*)(long)(s>>28&3),NULL,dl,NULL); enter_w(); if(r==0 && !(val>=(int)(s>>28&3))){viol++; fprintf(stderr,"VIOL muwait 0 but cond false\n");} if(r!=0 && val>=(int)(s>>28&3)){viol++; fprintf(stderr,"VIOL muwait %d but cond true\n",r);} leave_w(); } nsync_mu_unlock(&mu); break;
  case 9: nsync_mu_rlock(&mu); enter_r(); leave_r(); { int r=nsync_mu_wait_with_deadline(&mu,val_ge,(void*)(long)(s>>28&3),NULL,dl,NULL); enter_r(); if((r==0) != (val>=(int)(s>>28&3))){viol++; fprintf(stderr,"VIOL rmuwait r=%d\n",r);} leave_r(); } nsync_mu_runlock(&mu); break;
  case 10: nsync_mu_lock(&mu); enter_w(); leave_w(); nsync_cv_signal(&cv); nsync_mu_unlock(&mu); break;
  case 11: nsync_cv_broadcast(&cv); break;
  }
  ops[id]++; }
 return 0;}
int main(int argc,char**argv){ int secs=argc>1?atoi(argv[1]):10; NT=argc>2?atoi(argv[2]):6; pthread_t t[32]; for(long i=0;i<NT;i++) pthread_create(&t[i],0,w,(void*)i);
 long last=-1; for(int s=0;s<secs*2;s++){ usleep(500000); long tot=0; for(int i=0;i<NT;i++) tot+=ops[i]; if(tot==last){ fprintf(stderr,"STALL at %d ops=%ld word=%x\n",s,tot,*(unsigned*)&mu);  if(getenv("PAUSE")){ char cmd[300]; snprintf(cmd,sizeof cmd,"gdb -p %d -batch -ex 'thread apply all bt 10' > stall.%d.txt 2>&1",getpid(),getpid()); system(cmd);} _exit(3);} last=tot; }
 stop=1; for(int i=0;i<NT;i++) pthread_join(t[i],0); fprintf(stderr,"ops=%ld viol=%ld\n",last,viol); return viol?1:0;}
