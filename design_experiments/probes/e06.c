#define _GNU_SOURCE
#include <pthread.h>
#include <stdio.h>
#include <stdlib.h>
#include <unistd.h>
#include <errno.h>
#include <string.h>
#include "nsync.h"
#define NV 3
static nsync_mu mu; static int var[NV]; static int alias_a[NV], alias_b[NV]; /* alias_x[i] are distinct addresses that eq() maps to var i */
static int W; static long viol;
static int idx_of(const void*v){ const int*p=v; if(p>=var&&p<var+NV) return p-var; if(p>=alias_a&&p<alias_a+NV) return p-alias_a; return p-alias_b; }
static void chk(void){ if(__atomic_load_n(&W,__ATOMIC_RELAXED)!=0){ __atomic_add_fetch(&viol,1,__ATOMIC_RELAXED); fprintf(stderr,"VIOL cond evaluated while writer inside\n"); } }
static int is_set(const void*v){ chk(); return var[idx_of(v)]!=0; }
static int is_set2(const void*v){ chk(); return var[idx_of(v)]!=0; }
static int eqf(const void*a,const void*b){ return idx_of(a)==idx_of(b); }
static pthread_barrier_t bar; static int NW; static unsigned roundseed; static volatile long rounds; static volatile int done_flag[16]; static volatile int quit;
static void *waiter(void*a){ long id=(long)a; for(;;){ pthread_barrier_wait(&bar); if(quit) return 0; unsigned s=roundseed*2654435761u+id*40503u; s^=s>>13; s*=1103515245; s^=s>>11;
   int v=s%NV; int kind=(s>>4)%4; int reader=(s>>8)&1; int timed=((s>>10)%4)==0; const void*arg = kind==0? (void*)&var[v] : kind==1? (void*)&alias_a[v] : kind==2? (void*)&alias_b[v] : (void*)&var[v];
   int (*f)(const void*) = kind==3? is_set2 : is_set; int (*eq)(const void*,const void*) = (kind==1||kind==2)? eqf : ((s>>12)&1? eqf: NULL);
   if(reader) nsync_mu_rlock(&mu); else nsync_mu_lock(&mu);
   for(;;){ int r; if(timed){ r=nsync_mu_wait_with_deadline(&mu,f,arg,eq,nsync_time_add(nsync_time_now(),nsync_time_us((s>>14)%300)),NULL);} else { nsync_mu_wait(&mu,f,arg,eq); r=0; }
     if(r==0){ if(!var[v]){viol++; fprintf(stderr,"VIOL returned 0 cond false\n");} break; } if(var[v]){viol++; fprintf(stderr,"VIOL returned %d cond true\n",r);} timed=0; }
   if(reader) nsync_mu_runlock(&mu); else nsync_mu_unlock(&mu);
   pthread_barrier_wait(&bar); } }
static void *wd(void*a){ long last=-1; int same=0; for(;;){ usleep(500000); long r=rounds; if(r==last){ if(++same>=4){ fprintf(stderr,"STALL round=%ld word=%x var=%d%d%d\n",r,*(unsigned*)&mu,var[0],var[1],var[2]); char cmd[300]; snprintf(cmd,sizeof cmd,"gdb -p %d -batch -ex 'thread apply all bt 12' > stall06.%d.txt 2>&1",getpid(),getpid()); system(cmd); _exit(3);} } else same=0; last=r; } }
int main(int argc,char**argv){ pthread_t wt; pthread_create(&wt,0,wd,0); NW=argc>1?atoi(argv[1]):4; int nrounds=argc>2?atoi(argv[2]):20000; unsigned seed=argc>3?atoi(argv[3]):1; pthread_t t[16]; pthread_barrier_init(&bar,0,NW+1); for(long i=0;i<NW;i++) pthread_create(&t[i],0,waiter,(void*)i);
  unsigned s=seed; for(int r=0;r<nrounds;r++){ s=s*1103515245+12345; roundseed=s; memset(var,0,sizeof var); pthread_barrier_wait(&bar);
     /* driver: set vars one at a time in random order with random gaps; use unlock, sometimes reader sections in between */
     int order[NV]; for(int i=0;i<NV;i++) order[i]=i; for(int i=NV-1;i>0;i--){ s=s*1103515245+12345; int j=(s>>16)%(i+1); int t2=order[i]; order[i]=order[j]; order[j]=t2; }
     for(int i=0;i<NV;i++){ s=s*1103515245+12345; for(volatile unsigned k=0;k<(s>>16)%3000;k++); if((s>>3)&1){ nsync_mu_rlock(&mu); nsync_mu_runlock(&mu);} nsync_mu_lock(&mu); __atomic_add_fetch(&W,1,__ATOMIC_RELAXED); var[order[i]]=1; __atomic_sub_fetch(&W,1,__ATOMIC_RELAXED); nsync_mu_unlock(&mu); }
     rounds=r; pthread_barrier_wait(&bar); }
  quit=1; pthread_barrier_wait(&bar); fprintf(stderr,"rounds=%d viol=%ld\n",nrounds,viol); return viol?1:0; }
