#define _GNU_SOURCE
#include <pthread.h>
#include <stdio.h>
#include <stdlib.h>
#include <unistd.h>
#include <string.h>
#include <sched.h>
#include "nsync.h"
#define NT 4
static pthread_barrier_t bar; static unsigned rseed; static volatile int quit; static long viol;
static struct { nsync_once o; char pad[252]; } slots[8]; /* 256-byte stride: slots collide in the 64-entry table (addr/4 % 64) */
static nsync_once other[8]; static int runs[8], done[8], oruns[8]; static unsigned fdelay;
static void spin(unsigned n){ for(volatile unsigned i=0;i<n;i++); }
static void g_other(void*a){ long i=(long)a; __atomic_add_fetch(&oruns[i],1,__ATOMIC_RELAXED); }
static void f_arg(void*a){ long i=(long)a; __atomic_add_fetch(&runs[i],1,__ATOMIC_RELAXED); spin(fdelay); if(fdelay&1) sched_yield(); if(fdelay&2) nsync_run_once_arg(&other[i],g_other,(void*)i); done[i]=1; }
static void f0(void){ f_arg((void*)0); }
static void *worker(void*a){ long id=(long)a; for(;;){ pthread_barrier_wait(&bar); if(quit) return 0; unsigned s=rseed*2654435761u+id*977u+1; s=s*1103515245+12345; spin((s>>16)%3000);
   for(int k=0;k<3;k++){ s=s*1103515245+12345; long i=(s>>16)%2; int var=(s>>20)%4; if(i==0){ if(var&1) nsync_run_once(&slots[0].o,f0); else nsync_run_once_spin(&slots[0].o,f0);} else { if(var&1) nsync_run_once_arg(&slots[1].o,f_arg,(void*)1); else nsync_run_once_arg_spin(&slots[1].o,f_arg,(void*)1);} 
     if(__atomic_load_n(&runs[i],__ATOMIC_RELAXED)!=1 || !done[i]){ __atomic_add_fetch(&viol,1,__ATOMIC_RELAXED); fprintf(stderr,"VIOL returned early/again: runs=%d done=%d\n",runs[i],done[i]); } }
   pthread_barrier_wait(&bar); } }
int main(int argc,char**argv){ int nr=argc>1?atoi(argv[1]):20000; unsigned s=argc>2?atoi(argv[2]):1; pthread_t t[NT]; pthread_barrier_init(&bar,0,NT+1); for(long i=0;i<NT;i++) pthread_create(&t[i],0,worker,(void*)i);
 for(int r=0;r<nr;r++){ s=s*1103515245+12345; rseed=s; fdelay=(s>>12)%4000; memset(slots,0,sizeof slots); memset(other,0,sizeof other); memset(runs,0,sizeof runs); memset(done,0,sizeof done); memset(oruns,0,sizeof oruns); pthread_barrier_wait(&bar); pthread_barrier_wait(&bar); for(int i=0;i<2;i++) if(runs[i]>1||oruns[i]>1){viol++; fprintf(stderr,"VIOL runs=%d\n",runs[i]);} }
 quit=1; pthread_barrier_wait(&bar); fprintf(stderr,"ok rounds=%d viol=%ld\n",nr,viol); return viol!=0; }
