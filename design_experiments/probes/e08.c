#define _GNU_SOURCE
#include <pthread.h>
#include <stdio.h>
#include <stdlib.h>
#include <unistd.h>
#include <string.h>
#include "nsync.h"
#define NN 7
#define NT 4
#define OPS 5
static const int parent_of[NN]={-1,0,0,1,1,2,3};
static nsync_note N[NN]; static nsync_time own_dl[NN]; static int dlk[NN]; static pthread_barrier_t bar; static unsigned rseed; static volatile int quit; static long viol, clk; static long st[6];
struct ev { int note; int kind; /*0 notify,1 is_notified,2 wait*/ int res; long call, ret; nsync_time at; }; static struct ev L[NT][OPS]; static int nl[NT];
static long tick(void){ return __atomic_add_fetch(&clk,1,__ATOMIC_SEQ_CST); }
static unsigned nxt(unsigned*s){ *s=*s*1103515245+12345; return *s>>16; }
static void spin(unsigned n){ for(volatile unsigned i=0;i<n;i++); }
static int is_anc_or_self(int a,int n){ for(;n>=0;n=parent_of[n]) if(n==a) return 1; return 0; }
static void *worker(void*a){ long id=(long)a; for(;;){ pthread_barrier_wait(&bar); if(quit) return 0; unsigned s=rseed*2654435761u+id*977u+1; nxt(&s); nl[id]=0;
  for(int k=0;k<OPS;k++){ spin(nxt(&s)%5000); struct ev*e=&L[id][nl[id]++]; e->note=nxt(&s)%NN; e->kind=nxt(&s)%5; if(e->kind>2) e->kind=1; if(e->kind==0 && nxt(&s)%3) e->kind=1; e->call=tick();
    switch(e->kind){ case 0: nsync_note_notify(N[e->note]); e->res=1; break; case 1: e->res=nsync_note_is_notified(N[e->note]); break; default: e->res=nsync_note_wait(N[e->note],nsync_time_add(nsync_time_now(),nsync_time_us(nxt(&s)%200))); }
    e->at=nsync_time_now(); e->ret=tick(); }
  pthread_barrier_wait(&bar); } }
int main(int argc,char**argv){ int nr=argc>1?atoi(argv[1]):20000; unsigned s=argc>2?atoi(argv[2]):1; pthread_t t[NT]; pthread_barrier_init(&bar,0,NT+1); for(long i=0;i<NT;i++) pthread_create(&t[i],0,worker,(void*)i);
 for(int r=0;r<nr;r++){ rseed=nxt(&s)*65536u+nxt(&s)+1; unsigned q=rseed; nsync_time t0=nsync_time_now();
   for(int x=0;x<NN;x++){ dlk[x]=nxt(&q)%5; own_dl[x]= dlk[x]<=1? nsync_time_no_deadline : dlk[x]==2? nsync_time_s_ns(5,0) : dlk[x]==3? nsync_time_add(t0,nsync_time_us(30+nxt(&q)%400)) : nsync_time_add(t0,nsync_time_ms(1000000)); N[x]=nsync_note_new(parent_of[x]<0?NULL:N[parent_of[x]],own_dl[x]);
     /* O7 expiry = min over chain (parents not yet observed notified except past-deadline ones polled by nsync_note_new itself) */ nsync_time m=own_dl[x]; int anc_past=0; for(int p=parent_of[x];p>=0;p=parent_of[p]){ if(nsync_time_cmp(own_dl[p],m)<0) m=own_dl[p]; if(dlk[p]==2) anc_past=1; } nsync_time ex=nsync_note_expiry(N[x]);
     if(nsync_time_cmp(ex,m)!=0){ if(!(anc_past||dlk[x]==2||1) ){ } if(nsync_time_cmp(ex,nsync_time_now())>0){ viol++; fprintf(stderr,"VIOL expiry mismatch and in future note %d\n",x);} else st[5]++; } }
   pthread_barrier_wait(&bar); pthread_barrier_wait(&bar);
   /* gather */ struct ev*E[NT*OPS]; int ne=0; for(int i=0;i<NT;i++) for(int k=0;k<nl[i];k++) E[ne++]=&L[i][k];
   for(int x=0;x<NN;x++){ long first_true_ret=-1, min_notify_call=-1, min_self_notify_ret=-1; nsync_time exp=nsync_note_expiry(N[x]);
     for(int i=0;i<ne;i++){ struct ev*e=E[i]; if(e->kind==0 && is_anc_or_self(e->note,x)){ if(min_notify_call<0||e->call<min_notify_call) min_notify_call=e->call; } if(e->kind==0 && e->note==x){ if(min_self_notify_ret<0||e->ret<min_self_notify_ret) min_self_notify_ret=e->ret; } if(e->kind!=0 && e->note==x && e->res){ if(first_true_ret<0||e->ret<first_true_ret) first_true_ret=e->ret; } }
     for(int i=0;i<ne;i++){ struct ev*e=E[i]; if(e->kind==0||e->note!=x) continue; st[e->res?0:1]++;
        if(!e->res && first_true_ret>=0 && e->call>first_true_ret){viol++; fprintf(stderr,"VIOL O1 non-monotone note %d\n",x);} 
        if(e->res && !((min_notify_call>=0 && min_notify_call<e->ret) || nsync_time_cmp(exp,e->at)<=0)){viol++; fprintf(stderr,"VIOL O2 unjustified true note %d dlk=%d\n",x,dlk[x]);}
        if(!e->res && min_self_notify_ret>=0 && e->call>min_self_notify_ret){viol++; fprintf(stderr,"VIOL O3 false after notify returned note %d\n",x);}
        if(!e->res && e->kind==1 && nsync_time_cmp(exp,nsync_time_zero)>0 && 0){} }
     /* quiescent */ int q2=nsync_note_is_notified(N[x]); if(min_notify_call>=0 && !q2){viol++; fprintf(stderr,"VIOL O4 descendant %d not notified at quiescence\n",x);} if(min_notify_call<0 && nsync_time_cmp(exp,nsync_time_now())>0 && q2){ /* exp in future at check time: re-check */ viol++; fprintf(stderr,"VIOL O5 note %d notified without trigger\n",x);} }
   for(int x=NN-1;x>=0;x--) nsync_note_free(N[x]); }
 quit=1; pthread_barrier_wait(&bar); fprintf(stderr,"ok rounds=%d viol=%ld obs true=%ld false=%ld expiry!=min(but past)=%ld\n",nr,viol,st[0],st[1],st[5]); return viol!=0; }
