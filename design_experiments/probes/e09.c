#include <pthread.h>
#include <stdio.h>
#include <stdlib.h>
#include <unistd.h>
#include <errno.h>
#include "nsync.h"
static pthread_barrier_t bar; static nsync_note P, C; static unsigned seed;
static void spin(unsigned n){ for(volatile unsigned i=0;i<n;i++); }
static void *notifier(void *a){ unsigned d=(unsigned)(long)a; pthread_barrier_wait(&bar); spin(d); nsync_note_notify(C); return 0;}
static void *freer(void *a){ unsigned d=(unsigned)(long)a; pthread_barrier_wait(&bar); spin(d); nsync_note_free(P); return 0;}
static void *poller(void *a){ unsigned d=(unsigned)(long)a; pthread_barrier_wait(&bar); spin(d); nsync_note_is_notified(P); return 0;}
int main(int argc,char**argv){ int iters=argc>1?atoi(argv[1]):20000; seed=argc>2?atoi(argv[2]):1; unsigned s=seed;
 for(int it=0;it<iters;it++){ P=nsync_note_new(NULL,nsync_time_no_deadline); C=nsync_note_new(P,nsync_time_no_deadline); pthread_barrier_init(&bar,0,3);
  pthread_t t[4]; s=s*1103515245+12345; unsigned d1=(s>>16)%300; s=s*1103515245+12345; unsigned d2=(s>>16)%300; s=s*1103515245+12345; unsigned d3=(s>>16)%300;
  pthread_create(&t[0],0,notifier,(void*)(long)d1); pthread_create(&t[1],0,notifier,(void*)(long)d2); pthread_create(&t[2],0,freer,(void*)(long)d3);
  for(int i=0;i<3;i++) pthread_join(t[i],0); nsync_note_free(C); pthread_barrier_destroy(&bar);} fprintf(stderr,"ok %d iters\n",iters); return 0;}
