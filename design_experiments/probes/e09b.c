#define _GNU_SOURCE
#include <pthread.h>
#include <stdio.h>
#include <stdlib.h>
#include <unistd.h>
#include <string.h>
#include "nsync.h"
#define NN 7
#define NT 4
static nsync_note N[NN]; static int inF[NN]; static pthread_barrier_t bar; static unsigned rseed; static volatile long rounds; static volatile int quit;
static const int parent_of[NN]={-1,0,0,1,1,2,1};
static unsigned nxt(unsigned*s){ *s=*s*1103515245+12345; return *s>>16; }
static nsync_time rnd_deadline(unsigned*s){ switch(nxt(s)%4){ case 0: return nsync_time_no_deadline; case 1: return nsync_time_s_ns(1,0); /* past */ case 2: return nsync_time_add(nsync_time_now(),nsync_time_us(50+nxt(s)%250)); default: return nsync_time_add(nsync_time_now(),nsync_time_ms(50000)); } }
static void *worker(void*a){ long id=(long)a; for(;;){ pthread_barrier_wait(&bar); if(quit) return 0; unsigned s=rseed*2654435761u+id*977u+1; nxt(&s);
   for(int k=0;k<3;k++){ int op=nxt(&s)%6; int x; 
     if(op==5){ /* free a note from F assigned to this thread */ int did=0; for(x=0;x<NN;x++) if(inF[x]==(int)id+1){ inF[x]=-1; nsync_note_free(N[x]); did=1; break; } if(did) continue; op=0; }
     do { x=nxt(&s)%NN; } while(inF[x]!=0);
     switch(op){ case 0: nsync_note_notify(N[x]); break; case 1: nsync_note_is_notified(N[x]); break; case 2: nsync_note_wait(N[x],nsync_time_add(nsync_time_now(),nsync_time_us(nxt(&s)%200))); break;
       case 3: { nsync_note c=nsync_note_new(N[x],rnd_deadline(&s)); nsync_note_is_notified(c); if(nxt(&s)&1) nsync_note_notify(c); nsync_note_free(c); break; }
       case 4: { nsync_mu m; nsync_cv c; nsync_mu_init(&m); nsync_cv_init(&c); nsync_mu_lock(&m); nsync_cv_wait_with_deadline(&c,&m,nsync_time_add(nsync_time_now(),nsync_time_us(nxt(&s)%200)),N[x]); nsync_mu_unlock(&m); break; } } }
   pthread_barrier_wait(&bar); /* phase 2: free the rest, striped */
   for(int x=0;x<NN;x++) if(inF[x]==0 && (x%NT)==(int)id) nsync_note_free(N[x]);
   pthread_barrier_wait(&bar); } }
static void *wd(void*a){ long last=-1; int same=0; for(;;){ usleep(500000); long r=rounds; if(r==last){ if(++same>=6){ fprintf(stderr,"STALL round=%ld\n",r); char cmd[300]; snprintf(cmd,sizeof cmd,"gdb -p %d -batch -ex 'thread apply all bt 12' > stall09.%d.txt 2>&1",getpid(),getpid()); system(cmd); _exit(3);} } else same=0; last=r; } }
int main(int argc,char**argv){ int nr=argc>1?atoi(argv[1]):10000; unsigned seed=argc>2?atoi(argv[2]):1; pthread_t t[NT],w; pthread_create(&w,0,wd,0); pthread_barrier_init(&bar,0,NT+1); for(long i=0;i<NT;i++) pthread_create(&t[i],0,worker,(void*)i);
  unsigned s=seed; for(int r=0;r<nr;r++){ rseed=nxt(&s)*65536u+nxt(&s); unsigned q=rseed; for(int x=0;x<NN;x++){ N[x]=nsync_note_new(parent_of[x]<0?NULL:N[parent_of[x]],rnd_deadline(&q)); inF[x]=0; } int nf=nxt(&q)%3; for(int k=0;k<nf;k++){ int x=nxt(&q)%NN; if(!inF[x]) inF[x]=1+nxt(&q)%NT; }
    pthread_barrier_wait(&bar); pthread_barrier_wait(&bar); /* any F note not freed in phase1 (thread ran out of ops): free now from main after phase1 */ for(int x=0;x<NN;x++) if(inF[x]>0){ nsync_note_free(N[x]); inF[x]=-1; } pthread_barrier_wait(&bar); rounds=r+1; }
  quit=1; pthread_barrier_wait(&bar); fprintf(stderr,"ok rounds=%d\n",nr); return 0; }
