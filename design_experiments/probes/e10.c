#define _GNU_SOURCE
#include <pthread.h>
#include <stdio.h>
#include <stdlib.h>
#include <unistd.h>
#include <string.h>
#include "nsync.h"
#define NT 4
#define PER 4
static pthread_barrier_t bar; static unsigned rseed; static volatile int quit; static long viol; static nsync_counter c; static long clk;
struct ev { long call, ret; uint32_t val; int kind; /*0 add-1,1 value,2 wait ok,3 wait timeout*/ nsync_time dl, at; }; static struct ev log_[NT][PER*2+2]; static int nlog[NT];
static long tick(void){ return __atomic_add_fetch(&clk,1,__ATOMIC_SEQ_CST); }
static void spin(unsigned n){ for(volatile unsigned i=0;i<n;i++); }
static void *worker(void*a){ long id=(long)a; for(;;){ pthread_barrier_wait(&bar); if(quit) return 0; unsigned s=rseed*2654435761u+id*977u+1; s=s*1103515245+12345; nlog[id]=0;
  if(id<2){ /* decrementers: PER each => total 2*PER == initial value */ for(int k=0;k<PER;k++){ s=s*1103515245+12345; spin((s>>16)%4000); struct ev*e=&log_[id][nlog[id]++]; e->kind=0; e->call=tick(); e->val=nsync_counter_add(c,-1); e->ret=tick(); if((s>>8)&1){ e=&log_[id][nlog[id]++]; e->kind=1; e->call=tick(); e->val=nsync_counter_value(c); e->ret=tick(); } } }
  else { for(int k=0;k<2;k++){ s=s*1103515245+12345; spin((s>>16)%6000); struct ev*e=&log_[id][nlog[id]++]; int timed=(s>>4)&1; e->dl= timed? nsync_time_add(nsync_time_now(),nsync_time_us((s>>20)%300)) : nsync_time_no_deadline; e->call=tick(); uint32_t r=nsync_counter_wait(c,e->dl); e->at=nsync_time_now(); e->ret=tick(); e->val=r; e->kind= r==0?2:3; } }
  pthread_barrier_wait(&bar); } }
int main(int argc,char**argv){ int nr=argc>1?atoi(argv[1]):20000; unsigned s=argc>2?atoi(argv[2]):1; pthread_t t[NT]; long st[4]={0}; pthread_barrier_init(&bar,0,NT+1); for(long i=0;i<NT;i++) pthread_create(&t[i],0,worker,(void*)i);
 for(int r=0;r<nr;r++){ s=s*1103515245+12345; rseed=s; c=nsync_counter_new(2*PER); pthread_barrier_wait(&bar); pthread_barrier_wait(&bar);
   /* oracle: decrement returns are a permutation of 2*PER-1..0, consistent with real time */ int seen[2*PER]; memset(seen,0,sizeof seen); long zero_call=-1; struct ev*adds[2*PER]; int na=0;
   for(int i=0;i<2;i++) for(int k=0;k<nlog[i];k++){ struct ev*e=&log_[i][k]; if(e->kind==0){ if(e->val>=2*PER||seen[e->val]++){viol++; fprintf(stderr,"VIOL add returned dup/out of range %u\n",e->val);} adds[na++]=e; if(e->val==0) zero_call=e->call; } }
   for(int x=0;x<na;x++) for(int y=0;y<na;y++) if(adds[x]->ret<adds[y]->call && adds[x]->val<adds[y]->val){viol++; fprintf(stderr,"VIOL add order vs real time\n");}
   for(int i=0;i<2;i++) for(int k=0;k<nlog[i];k++){ struct ev*e=&log_[i][k]; if(e->kind==1){ /* value v: must be between (2*PER - #adds called before ret) and (2*PER - #adds returned before call) */ int called=0, returned=0; for(int x=0;x<na;x++){ if(adds[x]->call<e->ret) called++; if(adds[x]->ret<e->call) returned++; } int lo=2*PER-called, hi=2*PER-returned; if((int)e->val<lo||(int)e->val>hi){viol++; fprintf(stderr,"VIOL value %u not in [%d,%d]\n",e->val,lo,hi);} } }
   for(int i=2;i<NT;i++) for(int k=0;k<nlog[i];k++){ struct ev*e=&log_[i][k]; st[e->kind]++; if(e->kind==2){ if(zero_call<0||zero_call>e->ret){viol++; fprintf(stderr,"VIOL wait returned 0 before zeroing add started\n");} } else { if(nsync_time_cmp(e->at,e->dl)<0){viol++; fprintf(stderr,"VIOL wait nonzero before deadline\n");} } }
   nsync_counter_free(c); }
 quit=1; pthread_barrier_wait(&bar); fprintf(stderr,"ok rounds=%d viol=%ld waits ok=%ld timeout=%ld\n",nr,viol,st[2],st[3]); return viol!=0; }
