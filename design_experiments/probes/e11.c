#define _GNU_SOURCE
#include <pthread.h>
#include <stdio.h>
#include <stdlib.h>
#include <unistd.h>
#include <string.h>
#include <errno.h>
#include "nsync.h"
#define NT 4
#define MAXO 5
static pthread_barrier_t bar; static unsigned rseed; static volatile int quit; static long viol; static long stats[8];
static nsync_mu mu; static nsync_cv cvs[MAXO]; static nsync_note notes[MAXO]; static nsync_counter ctrs[MAXO]; static int kind[MAXO]; static int nobj; static int sig_cnt[MAXO];
static int fired[MAXO]; static int waiters_done; static nsync_time trig_done[MAXO]; static int trig_flag[MAXO]; /* set (release) after trigger op returned */
static void vlock(void*m){nsync_mu_lock((nsync_mu*)m);} static void vunlock(void*m){nsync_mu_unlock((nsync_mu*)m);}
static unsigned nxt(unsigned*s){ *s=*s*1103515245+12345; return *s>>16; }
static void spin(unsigned n){ for(volatile unsigned i=0;i<n;i++); }
static void trigger(int j){ switch(kind[j]){ case 0: nsync_note_notify(notes[j]); break; case 1: nsync_counter_add(ctrs[j],-1); break; default: nsync_mu_lock(&mu); sig_cnt[j]++; nsync_cv_broadcast(&cvs[j]); nsync_mu_unlock(&mu); break; } if(kind[j]!=2){ trig_done[j]=nsync_time_now(); __atomic_store_n(&trig_flag[j],1,__ATOMIC_RELEASE);} }
static void *worker(void*a){ long id=(long)a; for(;;){ pthread_barrier_wait(&bar); if(quit) return 0; unsigned s=rseed*2654435761u+id*977u+1; nxt(&s);
  if(id<2){ /* wait_n caller */ struct nsync_waitable_s wa[MAXO]; struct nsync_waitable_s*pw[MAXO]; for(int j=0;j<nobj;j++){ pw[j]=&wa[j]; switch(kind[j]){ case 0: wa[j].v=notes[j]; wa[j].funcs=&nsync_note_waitable_funcs; break; case 1: wa[j].v=ctrs[j]; wa[j].funcs=&nsync_counter_waitable_funcs; break; default: wa[j].v=&cvs[j]; wa[j].funcs=&nsync_cv_waitable_funcs; } }
     int dk=nxt(&s)%4; nsync_time dl= dk==0? nsync_time_no_deadline : dk==1? nsync_time_zero : nsync_time_add(nsync_time_now(),nsync_time_us(nxt(&s)%300)); spin(nxt(&s)%2000);
     nsync_mu_lock(&mu); int before[MAXO]; memcpy(before,sig_cnt,sizeof before); int r=nsync_wait_n(&mu,vlock,vunlock,dl,nobj,pw); nsync_time now=nsync_time_now();
     if(r<0||r>nobj){viol++; fprintf(stderr,"VIOL bad index %d\n",r);} else if(r<nobj){ __atomic_add_fetch(&stats[kind[r]],1,__ATOMIC_RELAXED); if(kind[r]==0 && !nsync_note_is_notified(notes[r])){viol++; fprintf(stderr,"VIOL note idx not notified\n");} if(kind[r]==1 && nsync_counter_value(ctrs[r])!=0){viol++; fprintf(stderr,"VIOL counter idx not zero\n");} if(kind[r]==2 && sig_cnt[r]==before[r]){viol++; fprintf(stderr,"VIOL cv idx but no broadcast during call\n");} }
     else { __atomic_add_fetch(&stats[3],1,__ATOMIC_RELAXED); if(nsync_time_cmp(now,dl)<0){viol++; fprintf(stderr,"VIOL timeout early\n");} for(int j=0;j<nobj;j++) if(kind[j]!=2 && __atomic_load_n(&trig_flag[j],__ATOMIC_ACQUIRE) && nsync_time_cmp(trig_done[j],dl)<0){viol++; fprintf(stderr,"VIOL returned count but object %d kind %d was ready before deadline (dk=%d)\n",j,kind[j],dk);} }
     nsync_mu_unlock(&mu);
  __atomic_add_fetch(&waiters_done,1,__ATOMIC_RELEASE);
  } else { /* trigger some objects */ int n=nxt(&s)%3; for(int k=0;k<n;k++){ spin(nxt(&s)%6000); int j=nxt(&s)%nobj; if(kind[j]==2) trigger(j); else if(__sync_bool_compare_and_swap(&fired[j],0,1)) trigger(j); }
     /* final sweep so that no-deadline waiters terminate */ spin(20000); while(__atomic_load_n(&waiters_done,__ATOMIC_ACQUIRE)<2){ for(int j=0;j<nobj;j++){ if(kind[j]==2) trigger(j); else if(__sync_bool_compare_and_swap(&fired[j],0,1)) trigger(j); } sched_yield(); } }
  pthread_barrier_wait(&bar); /* phase 2: after all wait_n returned, trigger everything again to expose leftover registration */
  if(id==2){ for(int j=0;j<nobj;j++){ if(kind[j]==2){ nsync_cv_broadcast(&cvs[j]); nsync_cv_signal(&cvs[j]); } else if(kind[j]==0) nsync_note_notify(notes[j]); else if(__sync_bool_compare_and_swap(&fired[j],0,1)) nsync_counter_add(ctrs[j],-1); } }
  pthread_barrier_wait(&bar); } }
int main(int argc,char**argv){ int nr=argc>1?atoi(argv[1]):20000; unsigned s=argc>2?atoi(argv[2]):1; pthread_t t[NT]; pthread_barrier_init(&bar,0,NT+1); for(long i=0;i<NT;i++) pthread_create(&t[i],0,worker,(void*)i);
 for(int r=0;r<nr;r++){ rseed=nxt(&s)*65536u+nxt(&s)+1; unsigned q=rseed; nobj=1+nxt(&q)%MAXO; memset(sig_cnt,0,sizeof sig_cnt); memset(trig_flag,0,sizeof trig_flag); memset(fired,0,sizeof fired); waiters_done=0; for(int j=0;j<nobj;j++){ kind[j]=nxt(&q)%3; nsync_cv_init(&cvs[j]); notes[j]=nsync_note_new(NULL, (nxt(&q)%4==0)? nsync_time_add(nsync_time_now(),nsync_time_us(nxt(&q)%300)) : nsync_time_no_deadline); ctrs[j]=nsync_counter_new(1); }
   pthread_barrier_wait(&bar); pthread_barrier_wait(&bar); pthread_barrier_wait(&bar); for(int j=0;j<nobj;j++){ nsync_note_free(notes[j]); nsync_counter_free(ctrs[j]); } }
 quit=1; pthread_barrier_wait(&bar); fprintf(stderr,"ok rounds=%d viol=%ld ready: note=%ld ctr=%ld cv=%ld timeout=%ld\n",nr,viol,stats[0],stats[1],stats[2],stats[3]); return viol!=0; }
