#define _GNU_SOURCE
#include <pthread.h>
#include <stdio.h>
#include <stdlib.h>
#include <unistd.h>
#include <errno.h>
#include <stdarg.h>
#include <sys/syscall.h>
#include <linux/futex.h>
#include "nsync.h"
typedef struct nsync_semaphore_s_ { void *sem_space[32]; } nsync_semaphore;
void nsync_mu_semaphore_init (nsync_semaphore *s); void nsync_mu_semaphore_p (nsync_semaphore *s); int nsync_mu_semaphore_p_with_deadline (nsync_semaphore *s, nsync_time abs_deadline); void nsync_mu_semaphore_v (nsync_semaphore *s);
long __real_syscall(long n, ...);
static __thread unsigned frng=12345; static long inj[4];
long __wrap_syscall(long n, long a, long b, long c, long d, long e, long f){
  if(n==SYS_futex && ((b&0x7f)==FUTEX_WAIT_BITSET||(b&0x7f)==FUTEX_WAIT)){ frng=frng*1103515245+12345; unsigned k=(frng>>16)%8; if(k==0){inj[0]++; errno=EINTR; return -1;} if(k==1){inj[1]++; errno=EAGAIN; return -1;} if(k==2 && d){inj[2]++; errno=ETIMEDOUT; return -1;} }
  return __real_syscall(n,a,b,c,d,e,f); }
static nsync_semaphore sem; static long posts, takes, timeouts; static volatile int stop;
static void *poster(void*a){ for(long i=0;i<200000;i++){ while(__atomic_load_n(&posts,__ATOMIC_RELAXED)-__atomic_load_n(&takes,__ATOMIC_RELAXED)>3) sched_yield(); __atomic_add_fetch(&posts,1,__ATOMIC_RELAXED); nsync_mu_semaphore_v(&sem);} return 0;}
int main(){ nsync_mu_semaphore_init(&sem); pthread_t t; pthread_create(&t,0,poster,0); long early=0; unsigned s=1;
  while(takes<200000){ s=s*1103515245+12345; if((s>>16)&1){ nsync_mu_semaphore_p(&sem); takes++; } else { nsync_time dl=nsync_time_add(nsync_time_now(),nsync_time_us((s>>20)%100)); int r=nsync_mu_semaphore_p_with_deadline(&sem,dl); if(r==0) takes++; else { timeouts++; if(nsync_time_cmp(nsync_time_now(),dl)<0) early++; } }
    if(takes>__atomic_load_n(&posts,__ATOMIC_RELAXED)){ printf("VIOL takes>posts\n"); return 1;} }
  pthread_join(t,0); printf("posts=%ld takes=%ld timeouts=%ld early_timeouts=%ld injected EINTR=%ld EAGAIN=%ld ETIMEDOUT=%ld\n",posts,takes,timeouts,early,inj[0],inj[1],inj[2]); return early?1:0; }
