#include <pthread.h>
#include <stdio.h>
#include <stdlib.h>
#include <unistd.h>
#include <errno.h>
#include "nsync.h"
static nsync_mu mu; static nsync_cv cv; static volatile int stop; static long nt, nw, ns; static int NOBJ=1;
static nsync_counter ctr; 
static void vlock(void*m){nsync_mu_lock((nsync_mu*)m);} static void vunlock(void*m){nsync_mu_unlock((nsync_mu*)m);}
static void *waiter(void *a){ unsigned s=(long)a*977+3; struct nsync_waitable_s wa[6]; struct nsync_waitable_s *pw[6];
  for(int i=0;i<6;i++){ wa[i].v=&cv; wa[i].funcs=&nsync_cv_waitable_funcs; pw[i]=&wa[i]; }
  if(NOBJ>1){ wa[1].v=ctr; wa[1].funcs=&nsync_counter_waitable_funcs; }
  while(!stop){ s=s*1103515245+12345; unsigned us=(s>>16)%60; nsync_mu_lock(&mu); int r=nsync_wait_n(&mu,vlock,vunlock,nsync_time_add(nsync_time_now(),nsync_time_us(us)),NOBJ,pw); nsync_mu_unlock(&mu); if(r==NOBJ) __sync_fetch_and_add(&nt,1); else __sync_fetch_and_add(&nw,1);} return 0;}
static void *sig(void *a){ unsigned s=(long)a*31+7; while(!stop){ s=s*1103515245+12345; if((s>>16)&1) nsync_cv_signal(&cv); else nsync_cv_broadcast(&cv); ns++; for(volatile int i=0;i<(int)((s>>20)%400);i++);} return 0;}
int main(int argc,char**argv){ int W=argc>1?atoi(argv[1]):3; NOBJ=argc>2?atoi(argv[2]):1; int secs=argc>3?atoi(argv[3]):10; ctr=nsync_counter_new(1); pthread_t t[16]; int n=0; for(long i=0;i<W;i++) pthread_create(&t[n++],0,waiter,(void*)i); for(long i=0;i<2;i++) pthread_create(&t[n++],0,sig,(void*)i);
 sleep(secs); stop=1; for(int i=0;i<n;i++) pthread_join(t[i],0); fprintf(stderr,"timeouts=%ld woken=%ld signals=%ld\n",nt,nw,ns); return 0;}
