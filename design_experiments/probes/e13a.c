#define _GNU_SOURCE
#include <pthread.h>
#include <stdio.h>
#include <stdlib.h>
#include <unistd.h>
#include <string.h>
#include "nsync.h"
#define NT 4
struct obj { nsync_mu mu; int refs; int val; };
static struct obj *cur; static pthread_barrier_t bar; static unsigned rseed; static volatile int quit; static long frees;
static int val_pos(const void*v){ return ((const struct obj*)v)->val>0; }
static void *worker(void*a){ long id=(long)a; for(;;){ pthread_barrier_wait(&bar); if(quit) return 0; struct obj*o=cur; unsigned s=rseed*2654435761u+id*977u+1; s=s*1103515245+12345; int k=(s>>16)%5; int last;
   switch(k){ case 0: case 1: nsync_mu_lock(&o->mu); o->val++; last=(__atomic_sub_fetch(&o->refs,1,__ATOMIC_RELAXED)==0); nsync_mu_unlock(&o->mu); break;
     case 2: nsync_mu_rlock(&o->mu); (void)o->val; nsync_mu_runlock(&o->mu); nsync_mu_lock(&o->mu); last=(__atomic_sub_fetch(&o->refs,1,__ATOMIC_RELAXED)==0); nsync_mu_unlock(&o->mu); break;
     case 3: nsync_mu_lock(&o->mu); nsync_mu_wait_with_deadline(&o->mu,val_pos,o,NULL,nsync_time_add(nsync_time_now(),nsync_time_us((s>>8)%100)),NULL); last=(__atomic_sub_fetch(&o->refs,1,__ATOMIC_RELAXED)==0); nsync_mu_unlock(&o->mu); break;
     default: nsync_mu_rlock(&o->mu); nsync_mu_wait_with_deadline(&o->mu,val_pos,o,NULL,nsync_time_add(nsync_time_now(),nsync_time_us((s>>8)%100)),NULL); nsync_mu_runlock(&o->mu); nsync_mu_lock(&o->mu); last=(__atomic_sub_fetch(&o->refs,1,__ATOMIC_RELAXED)==0); nsync_mu_unlock(&o->mu); break; }
   if(last){ memset(o,0xdd,sizeof *o); free(o); __atomic_add_fetch(&frees,1,__ATOMIC_RELAXED);} pthread_barrier_wait(&bar); } }
int main(int argc,char**argv){ int nr=argc>1?atoi(argv[1]):20000; unsigned s=argc>2?atoi(argv[2]):1; pthread_t t[NT]; pthread_barrier_init(&bar,0,NT+1); for(long i=0;i<NT;i++) pthread_create(&t[i],0,worker,(void*)i);
 for(int r=0;r<nr;r++){ s=s*1103515245+12345; rseed=s; cur=calloc(1,sizeof *cur); cur->refs=NT; pthread_barrier_wait(&bar); pthread_barrier_wait(&bar);} quit=1; pthread_barrier_wait(&bar); fprintf(stderr,"ok rounds=%d frees=%ld\n",nr,frees); return frees!=nr; }
