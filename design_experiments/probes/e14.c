#define _GNU_SOURCE
#include <pthread.h>
#include <stdio.h>
#include <stdlib.h>
#include <unistd.h>
#include <time.h>
#include "nsync.h"
typedef struct nsync_semaphore_s_ nsync_semaphore;
void __real_nsync_mu_semaphore_p(nsync_semaphore*s);
static __thread int is_victim; static __thread int sleeps;
static int delay_us=300;
void __wrap_nsync_mu_semaphore_p(nsync_semaphore*s){ __real_nsync_mu_semaphore_p(s); if(is_victim){ sleeps++; struct timespec ts={0,delay_us*1000}; nanosleep(&ts,0);} }
static nsync_mu mu; static volatile int stop; static int maxsleeps; static long nlocks; static int mode;
static void *victim(void*a){ is_victim=1; while(!stop){ sleeps=0; if(mode==0) nsync_mu_lock(&mu); else nsync_mu_rlock(&mu); if(sleeps>maxsleeps) maxsleeps=sleeps; nlocks++; if(mode==0) nsync_mu_unlock(&mu); else nsync_mu_runlock(&mu); usleep(100);} return 0;}
static void *barger(void*a){ while(!stop){ if(mode==2 ? nsync_mu_rtrylock(&mu) : nsync_mu_trylock(&mu)){ for(volatile int i=0;i<200;i++); if(mode==2) nsync_mu_runlock(&mu); else nsync_mu_unlock(&mu);} } return 0;}
int main(int argc,char**argv){ mode=argc>1?atoi(argv[1]):0; int nb=argc>2?atoi(argv[2]):3; int secs=argc>3?atoi(argv[3]):5; pthread_t t[16]; int n=0; pthread_create(&t[n++],0,victim,0); for(int i=0;i<nb;i++) pthread_create(&t[n++],0,barger,0); sleep(secs); stop=1; for(int i=0;i<n;i++) pthread_join(t[i],0); printf("mode=%d victim locks=%ld max sleeps in one lock call=%d\n",mode,nlocks,maxsleeps); return 0;}
