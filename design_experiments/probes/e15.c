#include <stdio.h>
#include <stdlib.h>
#include <errno.h>
#include "nsync.h"
static int falsecond(const void*v){return 0;}
int main(int argc,char**argv){ int which=atoi(argv[1]); long sec=atol(argv[2]); long ns=atol(argv[3]);
 nsync_time d; d.tv_sec=sec; d.tv_nsec=ns; nsync_mu mu; nsync_cv cv; nsync_mu_init(&mu); nsync_cv_init(&cv); int r=-1;
 setvbuf(stdout,0,_IONBF,0);
 switch(which){
 case 0: nsync_mu_lock(&mu); r=nsync_cv_wait_with_deadline(&cv,&mu,d,NULL); nsync_mu_unlock(&mu); break;
 case 1: nsync_mu_lock(&mu); r=nsync_mu_wait_with_deadline(&mu,falsecond,NULL,NULL,d,NULL); nsync_mu_unlock(&mu); break;
 case 2: { nsync_note n=nsync_note_new(NULL,nsync_time_no_deadline); r=nsync_note_wait(n,d); break;}
 case 3: { nsync_counter c=nsync_counter_new(1); r=nsync_counter_wait(c,d); break;}
 case 4: { nsync_note n=nsync_note_new(NULL,d); r=nsync_note_is_notified(n); break;}
 case 5: { nsync_note n=nsync_note_new(NULL,d); nsync_mu_lock(&mu); r=nsync_cv_wait_with_deadline(&cv,&mu,nsync_time_no_deadline,n); nsync_mu_unlock(&mu); break;}
 }
 printf("which=%d sec=%ld ns=%ld r=%d\n",which,sec,ns,r); return 0;}
