#include <pthread.h>
#include <stdio.h>
#include <stdlib.h>
#include <unistd.h>
#include "nsync.h"
static nsync_mu mu; static volatile int inside; static volatile long viol; static volatile long ops[8]; static volatile int stop;
static void *locker(void *a){ long id=(long)a; while(!stop){ nsync_mu_lock(&mu); if(__sync_fetch_and_add(&inside,1)!=0) __sync_fetch_and_add(&viol,1); for(volatile int i=0;i<50;i++); __sync_fetch_and_sub(&inside,1); nsync_mu_unlock(&mu); ops[id]++;} return 0;}
static void *dbg(void *a){ char buf[512]; while(!stop){ nsync_mu_debug_state_and_waiters(&mu,buf,sizeof buf);} return 0;}
int main(int argc,char**argv){ int nd=argc>1?atoi(argv[1]):2; pthread_t t[16]; int n=0; for(long i=0;i<6;i++) pthread_create(&t[n++],0,locker,(void*)i); for(int i=0;i<nd;i++) pthread_create(&t[n++],0,dbg,0);
 long last=-1; for(int s=0;s<10;s++){ usleep(500000); long tot=0; for(int i=0;i<6;i++) tot+=ops[i]; printf("t=%d ops=%ld viol=%ld word=%x\n",s,tot,viol,*(unsigned*)&mu); if(tot==last){printf("STALL\n"); _exit(3);} last=tot;} stop=1; _exit(viol?1:0);}
