#define _GNU_SOURCE
#include <pthread.h>
#include <stdio.h>
#include <stdlib.h>
#include <string.h>
#include <unistd.h>
#include "nsync.h"
static nsync_mu mu; static nsync_cv cv; static int go; static long bad;
static int is_go(const void*v){return go;}
static void *locker(void*a){ nsync_mu_lock(&mu); nsync_mu_unlock(&mu); return 0;}
static void *rlocker(void*a){ nsync_mu_rlock(&mu); nsync_mu_runlock(&mu); return 0;}
static void *cvw(void*a){ nsync_mu_lock(&mu); while(!go) nsync_cv_wait(&cv,&mu); nsync_mu_unlock(&mu); return 0;}
static void *muw(void*a){ nsync_mu_lock(&mu); nsync_mu_wait(&mu,is_go,NULL,NULL); nsync_mu_unlock(&mu); return 0;}
typedef char*(*dbgfn)(void*,char*,int);
static void check(const char*name,dbgfn f,void*obj){ char full[2048]; memset(full,0x55,sizeof full); f(obj,full,1024); size_t L=strlen(full); if(L>=1023){ printf("full output too long?\n"); }
  for(int n=0;n<=80;n++){ /* canary array */ unsigned char arr[200]; memset(arr,0xAA,sizeof arr); char*buf=(char*)arr+50; char*r=f(obj,buf,n); if(r!=buf){bad++;printf("%s n=%d returned ptr differs\n",name,n);} for(int i=0;i<200;i++){ if((i<50||i>=50+n)&&arr[i]!=0xAA){bad++;printf("%s n=%d wrote outside at %d\n",name,n,i-50);break;} }
    if(n>=1){ if(!memchr(buf,0,n)){bad++;printf("%s n=%d not NUL-terminated\n",name,n);} else { size_t l=strlen(buf); int trunc=(L+1>(size_t)n); if(!trunc){ if(strcmp(buf,full)){bad++;printf("%s n=%d fits but differs\n",name,n);} } else { if(n>=4){ if(l<3||strcmp(buf+l-3,"...")){bad++;printf("%s n=%d truncated but no ... : '%s'\n",name,n,buf);} else if(strncmp(buf,full,l-3)){bad++;printf("%s n=%d truncated prefix differs\n",name,n);} if((int)l!=n-1){ /* expect uses whole buffer */ printf("note %s n=%d trunc len=%zu\n",name,n,l);} } } } }
    /* exact-size heap block for ASan */ char*h=malloc(n?n:1); f(obj,h,n); free(h); }
}
int main(){ pthread_t t[8]; int nt=0; nsync_mu_lock(&mu); /* state 0: held, no waiters */
  check("mu_debug_state/0",(dbgfn)nsync_mu_debug_state,&mu); check("mu_debug_state_and_waiters/0",(dbgfn)nsync_mu_debug_state_and_waiters,&mu);
  pthread_create(&t[nt++],0,locker,0); usleep(20000); pthread_create(&t[nt++],0,rlocker,0); usleep(20000); pthread_create(&t[nt++],0,locker,0); usleep(50000);
  check("mu_debug_state/3",(dbgfn)nsync_mu_debug_state,&mu); check("mu_debug_state_and_waiters/3",(dbgfn)nsync_mu_debug_state_and_waiters,&mu);
  nsync_mu_unlock(&mu); for(int i=0;i<nt;i++) pthread_join(t[i],0); nt=0;
  pthread_create(&t[nt++],0,cvw,0); pthread_create(&t[nt++],0,cvw,0); pthread_create(&t[nt++],0,muw,0); usleep(80000);
  check("cv_debug_state/2",(dbgfn)nsync_cv_debug_state,&cv); check("cv_debug_state_and_waiters/2",(dbgfn)nsync_cv_debug_state_and_waiters,&cv); check("mu_debug_state_and_waiters/cond",(dbgfn)nsync_mu_debug_state_and_waiters,&mu);
  nsync_mu_lock(&mu); go=1; nsync_cv_broadcast(&cv); nsync_mu_unlock(&mu); for(int i=0;i<nt;i++) pthread_join(t[i],0);
  printf("bad=%ld\n",bad); return bad!=0; }
