#include <stdio.h>
#include <stdlib.h>
#include <string.h>
#include "nsync_cpp.h"
#include "platform.h"
#include "compiler.h"
#include "cputype.h"
#include "dll.h"
#define NE 5
#define NL 2
static nsync_dll_element_ el[NE]; static nsync_dll_list_ L[NL]; static int M[NL][NE], ML[NL]; static int where[NE]; /* -1 detached else list */
static long bad;
static void check(void){ for(int l=0;l<NL;l++){ int k=0; for(nsync_dll_element_*p=nsync_dll_first_(L[l]);p;p=nsync_dll_next_(L[l],p)){ if(k>=ML[l]||p!=&el[M[l][k]]){bad++;return;} k++; if(k>NE+1){bad++;return;} } if(k!=ML[l]){bad++;return;} k=ML[l]-1; for(nsync_dll_element_*p=nsync_dll_last_(L[l]);p;p=nsync_dll_prev_(L[l],p)){ if(k<0||p!=&el[M[l][k]]){bad++;return;} k--; } if(k!=-1){bad++;return;} if(nsync_dll_is_empty_(L[l])!=(ML[l]==0)){bad++;return;} }
  for(int e=0;e<NE;e++) if(where[e]<0 && (el[e].next!=&el[e]||el[e].prev!=&el[e])){bad++;return;} }
int main(int argc,char**argv){ unsigned s=argc>1?atoi(argv[1]):1; long ops=0; for(int e=0;e<NE;e++){ nsync_dll_init_(&el[e],&el[e]); where[e]=-1; }
 for(long it=0;it<3000000;it++){ s=s*1103515245+12345; int op=(s>>16)%4; int e=(s>>20)%NE; int l=(s>>24)%NL;
  if(op==0 && where[e]<0){ L[l]=nsync_dll_make_first_in_list_(L[l],&el[e]); memmove(&M[l][1],&M[l][0],ML[l]*sizeof(int)); M[l][0]=e; ML[l]++; where[e]=l; }
  else if(op==1 && where[e]<0){ L[l]=nsync_dll_make_last_in_list_(L[l],&el[e]); M[l][ML[l]++]=e; where[e]=l; }
  else if(op==2 && where[e]>=0){ int wl=where[e]; L[wl]=nsync_dll_remove_(L[wl],&el[e]); int k; for(k=0;M[wl][k]!=e;k++); memmove(&M[wl][k],&M[wl][k+1],(ML[wl]-k-1)*sizeof(int)); ML[wl]--; where[e]=-1; }
  else if(op==3 && ML[0]>0 && ML[1]>0){ /* splice whole list 1 into list l=0 as first or last */ if((s>>8)&1){ L[0]=nsync_dll_make_first_in_list_(L[0],nsync_dll_first_(L[1])); int t[NE]; memcpy(t,M[1],ML[1]*sizeof(int)); memcpy(t+ML[1],M[0],ML[0]*sizeof(int)); ML[0]+=ML[1]; memcpy(M[0],t,ML[0]*sizeof(int)); } else { L[0]=nsync_dll_make_last_in_list_(L[0],nsync_dll_last_(L[1])); memcpy(&M[0][ML[0]],M[1],ML[1]*sizeof(int)); ML[0]+=ML[1]; } for(int k=0;k<ML[0];k++) where[M[0][k]]=0; ML[1]=0; L[1]=NULL; }
  else continue; ops++; check(); if(bad){ printf("BAD at it=%ld op=%d\n",it,op); return 1; } }
 printf("ops=%ld bad=%ld\n",ops,bad); return 0; }
