#include <stdio.h>
#include <stdlib.h>
#include <stdint.h>
#include <limits.h>
#include "nsync.h"
typedef __int128 i128;
static i128 tons(nsync_time t){ return (i128)t.tv_sec*1000000000+(i128)t.tv_nsec; }
static long bad;
int main(){ long secs[]={0,1,-1,2,-2,2147483647L,-2147483648L,2147483648L,-2147483649L,4294967296L,1L<<40,-(1L<<40),(1L<<62),-(1L<<62)}; long ns[]={0,1,500000000,999999999,999999998,2}; int NS=sizeof secs/sizeof*secs, NN=sizeof ns/sizeof*ns; long n=0;
 for(int a=0;a<NS;a++)for(int b=0;b<NN;b++)for(int c=0;c<NS;c++)for(int d=0;d<NN;d++){ nsync_time x=nsync_time_s_ns(secs[a],ns[b]), y=nsync_time_s_ns(secs[c],ns[d]); i128 X=tons(x),Y=tons(y); n++;
   int cmp=nsync_time_cmp(x,y); int want=(X>Y)-(X<Y); if((cmp>0)-(cmp<0)!=want){bad++; printf("cmp bad %ld.%ld %ld.%ld\n",secs[a],ns[b],secs[c],ns[d]);}
   i128 S=X+Y; i128 lim=(i128)LONG_MAX*1000000000; if(S<=lim && S>=-(lim)){ /* no overflow */ i128 sa=(i128)secs[a]+secs[c]; if(sa+1<=LONG_MAX && sa>=LONG_MIN){ nsync_time s=nsync_time_add(x,y); if(tons(s)!=S||s.tv_nsec<0||s.tv_nsec>=1000000000){bad++; printf("add bad %ld.%ld + %ld.%ld -> %ld.%ld\n",secs[a],ns[b],secs[c],ns[d],(long)s.tv_sec,s.tv_nsec);} nsync_time r=nsync_time_sub(s,y); if(tons(r)!=X){bad++; printf("(a+b)-b bad\n");} } }
   i128 D=X-Y; i128 sd=(i128)secs[a]-secs[c]; if(sd-1>=LONG_MIN && sd<=LONG_MAX){ nsync_time s=nsync_time_sub(x,y); if(tons(s)!=D||s.tv_nsec<0||s.tv_nsec>=1000000000){bad++; printf("sub bad %ld.%ld - %ld.%ld -> %ld.%ld\n",secs[a],ns[b],secs[c],ns[d],(long)s.tv_sec,s.tv_nsec);} } }
 unsigned g[]={0,1,999,1000,1001,999999,1000000,1000001,4294967295u,4294967u,4294967000u,2147483648u}; for(unsigned i=0;i<sizeof g/sizeof*g;i++){ if(tons(nsync_time_ms(g[i]))!=(i128)g[i]*1000000){bad++;printf("ms bad %u\n",g[i]);} if(tons(nsync_time_us(g[i]))!=(i128)g[i]*1000){bad++;printf("us bad %u\n",g[i]);} }
 unsigned s=1; for(long i=0;i<5000000;i++){ s=s*1103515245+12345; unsigned v=s^(s>>16)^(unsigned)i*2654435761u; if(tons(nsync_time_ms(v))!=(i128)v*1000000||tons(nsync_time_us(v))!=(i128)v*1000){bad++; if(bad<5)printf("rnd bad %u\n",v);} }
 if(nsync_time_cmp(nsync_time_zero,nsync_time_no_deadline)>=0) bad++;
 printf("pairs=%ld bad=%ld\n",n,bad); return bad!=0; }
