#define _GNU_SOURCE
#include <stdio.h>
#include <stdlib.h>
#include <string.h>
#include <dlfcn.h>
#include "nsync.h"
void *__real_malloc(size_t); static int armed, countdown, seen, failed;
void *__wrap_malloc(size_t n){ if(armed){ seen++; if(--countdown==0){ failed++; return NULL; } } return __real_malloc(n); }
int main(){ long bad=0; int cases=0;
 for(int k=1;k<=3;k++){ /* fail k-th allocation while building a tree */
   nsync_note root=nsync_note_new(NULL,nsync_time_no_deadline); nsync_note kid=nsync_note_new(root,nsync_time_no_deadline);
   armed=1; countdown=k; seen=0; failed=0; nsync_note n1=nsync_note_new(root,nsync_time_no_deadline); nsync_note n2=nsync_note_new(kid,nsync_time_add(nsync_time_now(),nsync_time_ms(100000))); nsync_counter c=nsync_counter_new(3); armed=0; cases++;
   void*objs[3]={n1,n2,c}; int nulls=0; for(int i=0;i<3;i++) if(!objs[i]) nulls++; if(nulls!=failed){bad++; printf("k=%d nulls=%d failed=%d\n",k,nulls,failed);} if(seen!=3){ printf("note: allocations seen=%d (expected 3)\n",seen);} 
   /* tree still usable */ nsync_note again=nsync_note_new(root,nsync_time_no_deadline); if(!again){bad++;} nsync_note_notify(root); if(!nsync_note_is_notified(kid)||!nsync_note_is_notified(again)||(n1&&!nsync_note_is_notified(n1))||(n2&&!nsync_note_is_notified(n2))){bad++; printf("k=%d descendants not notified\n",k);} 
   if(n1) nsync_note_free(n1); if(n2) nsync_note_free(n2); if(c) nsync_counter_free(c); nsync_note_free(again); nsync_note_free(kid); nsync_note_free(root); }
 printf("cases=%d bad=%ld\n",cases,bad); return bad!=0; }
