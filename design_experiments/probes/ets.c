#include <pthread.h>
#include <stdio.h>
#include <stdlib.h>
#include <unistd.h>
#include <errno.h>
#include "nsync.h"
static nsync_mu mu; static nsync_cv cv; static long data; static long rdata; static int flag;
static int flag_set(const void*v){return *(const int*)v!=0;}
static void *w(void *a){ long id=(long)a; unsigned s=id*7919+1; for(int i=0;i<20000;i++){ s=s*1103515245+12345; int k=(s>>16)%8;
  if(k<3){ nsync_mu_lock(&mu); data++; nsync_mu_unlock(&mu);} 
  else if(k<5){ nsync_mu_rlock(&mu); rdata+=0; long x=data; (void)x; nsync_mu_runlock(&mu);} 
  else if(k==5){ if(nsync_mu_trylock(&mu)){ data++; nsync_mu_unlock(&mu);} }
  else if(k==6){ nsync_mu_lock(&mu); data++; nsync_cv_wait_with_deadline(&cv,&mu,nsync_time_add(nsync_time_now(),nsync_time_us(50)),NULL); data++; nsync_mu_unlock(&mu);} 
  else { nsync_mu_lock(&mu); data++; nsync_cv_signal(&cv); nsync_mu_unlock(&mu);} }
 return 0;}
int main(){ pthread_t t[6]; for(long i=0;i<6;i++) pthread_create(&t[i],0,w,(void*)i); for(int i=0;i<6;i++) pthread_join(t[i],0); printf("done data=%ld\n",data); return 0;}
