#define _GNU_SOURCE
#include <pthread.h>
#include <stdio.h>
#include <stdlib.h>
#include <string.h>
#include <errno.h>
#include "nsync.h"
#include "vsched.h"
static nsync_mu mu; static nsync_cv cv; static int W,R; static long viol; static int val; static int NT=3, NOPS=12; static uint64_t seed;
static void enter_w(void){ W++; if(W!=1||R!=0){viol++; fprintf(stderr,"VIOL enter_w W=%d R=%d\n",W,R);} } static void leave_w(void){W--;}
static void enter_r(void){ R++; if(W!=0){viol++; fprintf(stderr,"VIOL enter_r W=%d\n",W);} } static void leave_r(void){R--;}
static int val_ge(const void*v){ if(W!=0){viol++; fprintf(stderr,"VIOL cond with writer inside\n");} return val>=(int)(long)v; }
static nsync_time dl_us(unsigned us){ int64_t t=sched_now_ns()+us*1000ll; nsync_time d; d.tv_sec=t/1000000000ll; d.tv_nsec=t%1000000000ll; return d; }
static int mixmask=0xfff;
static void *w(void*a){ long id=(long)a; sched_thread_begin(id); unsigned s=(unsigned)(seed*2654435761u)+id*7919+17; for(int i=0;i<NOPS;i++){ int k; do { s=s*1103515245+12345; k=(s>>16)%12; } while(!((mixmask>>k)&1)); unsigned us=(s>>8)%200; nsync_time dl=dl_us(us); int want=(s>>28)&3;
  switch(k){
  case 0: case 1: nsync_mu_lock(&mu); enter_w(); val=(val+1)%4; sched_point(); leave_w(); nsync_mu_unlock(&mu); break;
  case 2: case 3: nsync_mu_rlock(&mu); enter_r(); sched_point(); leave_r(); nsync_mu_runlock(&mu); break;
  case 4: if(nsync_mu_trylock(&mu)){ enter_w(); val=(val+1)%4; leave_w(); nsync_mu_unlock(&mu);} break;
  case 5: if(nsync_mu_rtrylock(&mu)){ enter_r(); leave_r(); nsync_mu_runlock(&mu);} break;
  case 6: nsync_mu_lock(&mu); enter_w(); leave_w(); nsync_cv_wait_with_deadline(&cv,&mu,dl,NULL); enter_w(); leave_w(); nsync_mu_unlock(&mu); break;
  case 7: nsync_mu_rlock(&mu); enter_r(); leave_r(); nsync_cv_wait_with_deadline(&cv,&mu,dl,NULL); enter_r(); leave_r(); nsync_mu_runlock(&mu); break;
  case 8: nsync_mu_lock(&mu); enter_w(); leave_w(); { int r=nsync_mu_wait_with_deadline(&mu,val_ge,(void*)(long)want,NULL,dl,NULL); enter_w(); if((r==0)!=(val>=want)){viol++; fprintf(stderr,"VIOL muwait r=%d\n",r);} leave_w(); } nsync_mu_unlock(&mu); break;
  case 9: nsync_mu_rlock(&mu); enter_r(); leave_r(); { int r=nsync_mu_wait_with_deadline(&mu,val_ge,(void*)(long)want,NULL,dl,NULL); enter_r(); if((r==0)!=(val>=want)){viol++; fprintf(stderr,"VIOL rmuwait r=%d\n",r);} leave_r(); } nsync_mu_runlock(&mu); break;
  case 10: nsync_mu_lock(&mu); enter_w(); leave_w(); nsync_cv_signal(&cv); nsync_mu_unlock(&mu); break;
  case 11: nsync_cv_broadcast(&cv); break; } }
 sched_thread_end(); return 0; }
void sched_deadlock_hook(void){ fprintf(stderr,"DEADLOCK seed=%lu word=%x\n",seed,*(unsigned*)&mu); }
int main(int argc,char**argv){ uint64_t s0=argc>1?strtoull(argv[1],0,0):1; NT=argc>2?atoi(argv[2]):3; NOPS=argc>3?atoi(argv[3]):12; if(argc>4) mixmask=strtol(argv[4],0,0); int n=argc>5?atoi(argv[5]):1;
 for(int r=0;r<n;r++){ seed=s0*1000003+r; memset(&mu,0,sizeof mu); memset(&cv,0,sizeof cv); W=R=0; val=0; pthread_t t[16]; sched_init(NT,seed); for(long i=0;i<NT;i++) pthread_create(&t[i],0,w,(void*)i); for(int i=0;i<NT;i++) pthread_join(t[i],0); if(viol){ printf("VIOL seed=%lu\n",seed); return 1;} }
 printf("rounds=%d ok\n",n); return 0; }
