/* C04 race rounds: W1 timed, W2 untimed, one signal; controller judges at quiescence. */
#define _GNU_SOURCE
#include <pthread.h>
#include <stdio.h>
#include <stdlib.h>
#include <string.h>
#include <errno.h>
#include "nsync.h"
#include "vsched.h"
static nsync_mu mu; static nsync_cv cv; static int tickets; static int r1=-1, w2done, sdone; static uint64_t seed; static int kind; static long stats[8];
static nsync_time dl_ns(long ns){ int64_t t=sched_now_ns()+ns; nsync_time d; d.tv_sec=t/1000000000ll; d.tv_nsec=t%1000000000ll; return d; }
static int two(const void*v){ return tickets>=2; }
static void vlock(void*m){nsync_mu_lock((nsync_mu*)m);} static void vunlock(void*m){nsync_mu_unlock((nsync_mu*)m);}
static void *W1(void*a){ sched_thread_begin(0); unsigned s=seed*31+5; s=s*1103515245+12345; long ns=((s>>16)%400)*50;
  if(kind&1){ nsync_mu_rlock(&mu);} else nsync_mu_lock(&mu); 
  /* tickets++ needs write lock: take ticket via atomic since reader */ __atomic_add_fetch(&tickets,1,__ATOMIC_RELAXED);
  if(kind&2){ struct nsync_waitable_s wa={&cv,&nsync_cv_waitable_funcs}; struct nsync_waitable_s*pw=&wa; int r=nsync_wait_n(&mu,(kind&1)?(void(*)(void*))nsync_mu_rlock:vlock,(kind&1)?(void(*)(void*))nsync_mu_runlock:vunlock,dl_ns(ns),1,&pw); r1 = r==0?0:ETIMEDOUT; }
  else r1=nsync_cv_wait_with_deadline(&cv,&mu,dl_ns(ns),NULL);
  if(kind&1) nsync_mu_runlock(&mu); else nsync_mu_unlock(&mu); sched_thread_end(); return 0; }
static void *W2(void*a){ sched_thread_begin(1); nsync_mu_lock(&mu); __atomic_add_fetch(&tickets,1,__ATOMIC_RELAXED); nsync_cv_wait(&cv,&mu); w2done=1; nsync_mu_unlock(&mu); sched_thread_end(); return 0; }
static void *S(void*a){ sched_thread_begin(2); nsync_mu_lock(&mu); while(tickets<2){ nsync_mu_unlock(&mu); sched_point(); nsync_mu_lock(&mu);} if(kind&4){ nsync_mu_unlock(&mu); nsync_cv_signal(&cv);} else { nsync_cv_signal(&cv); nsync_mu_unlock(&mu);} sdone=1; sched_thread_end(); return 0; }
static void *C(void*a){ sched_thread_begin(3); sched_wait_quiescent(); /* everyone else blocked or done */
  int viol=0; if(!sdone){ fprintf(stderr,"VIOL signaller not done\n"); viol=1; }
  if(r1==-1){ fprintf(stderr,"VIOL W1 still blocked at quiescence (timed wait!)\n"); viol=1; }
  else if(r1==0 && !w2done) stats[0]++; else if(r1==ETIMEDOUT && w2done) stats[1]++; else if(r1==0 && w2done){ stats[2]++; /* legal only if W1 reader head => wakes all readers + one writer; or W1 first is reader */ }
  else { fprintf(stderr,"VIOL swallowed signal: W1=ETIMEDOUT and W2 asleep seed=%lu kind=%d\n",seed,kind); viol=1; }
  if(viol) _exit(9);
  nsync_cv_broadcast(&cv); sched_thread_end(); return 0; }
int main(int argc,char**argv){ uint64_t s0=argc>1?strtoull(argv[1],0,0):1; int n=argc>2?atoi(argv[2]):1000; extern int sched_quiet; uint64_t hs=0; 
  for(int r=0;r<n;r++){ seed=s0*1000003+r; kind=(seed>>3)&7; memset(&mu,0,sizeof mu); memset(&cv,0,sizeof cv); tickets=0; r1=-1; w2done=0; sdone=0; pthread_t t[4]; sched_init(4,seed); void*(*f[4])(void*)={W1,W2,S,C}; for(int i=0;i<4;i++) pthread_create(&t[i],0,f[i],0); for(int i=0;i<4;i++) pthread_join(t[i],0); uint64_t a,b,h; sched_stats(&a,&b,&h); hs^=h; }
  printf("rounds=%d W1=0,W2 asleep:%ld  W1=TO,W2 woke:%ld  both woke:%ld hashxor=%016lx\n",n,stats[0],stats[1],stats[2],hs); return 0; }
void sched_deadlock_hook(void){}
