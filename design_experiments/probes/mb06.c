#define _GNU_SOURCE
#include <pthread.h>
#include <stdio.h>
#include <stdlib.h>
#include <string.h>
#include <unistd.h>
#include <errno.h>
#include "nsync.h"
#include "vsched.h"
#define NV 3
static nsync_mu mu; static int var[NV]; static uint64_t seed; static int NW=3; static long viol;
static int is_set(const void*v){ return *(const int*)v!=0; }
static int is_set2(const void*v){ return *(const int*)v!=0; }
static nsync_time dl_ns(long ns){ int64_t t=sched_now_ns()+ns; nsync_time d; d.tv_sec=t/1000000000ll; d.tv_nsec=t%1000000000ll; return d; }
static void *waiter(void*a){ long id=(long)a; sched_thread_begin(id); unsigned s=(unsigned)(seed*2654435761u)+id*40503u; s^=s>>13; s*=1103515245; s^=s>>11;
  int v=s%NV; int kind=(s>>4)%2; int reader=(s>>8)&1; int timed=((s>>10)%3)==0; int (*f)(const void*)= kind? is_set2:is_set;
  if(reader) nsync_mu_rlock(&mu); else nsync_mu_lock(&mu);
  for(;;){ int r; if(timed){ r=nsync_mu_wait_with_deadline(&mu,f,&var[v],NULL,dl_ns(((s>>14)%200)*50),NULL);} else { nsync_mu_wait(&mu,f,&var[v],NULL); r=0; }
    if(r==0){ if(!var[v]){viol++; fprintf(stderr,"VIOL returned 0 cond false\n");} break; } if(var[v]){viol++; fprintf(stderr,"VIOL returned %d cond true\n",r);} timed=0; }
  if(reader) nsync_mu_runlock(&mu); else nsync_mu_unlock(&mu); sched_thread_end(); return 0; }
static void *driver(void*a){ sched_thread_begin(NW); unsigned s=(unsigned)(seed*40503u)+99; int order[NV]; for(int i=0;i<NV;i++) order[i]=i; for(int i=NV-1;i>0;i--){ s=s*1103515245+12345; int j=(s>>16)%(i+1); int t=order[i]; order[i]=order[j]; order[j]=t; }
  for(int i=0;i<NV;i++){ s=s*1103515245+12345; int gaps=(s>>16)%4; for(int g=0;g<gaps;g++) sched_point(); if((s>>3)&1){ nsync_mu_rlock(&mu); nsync_mu_runlock(&mu);} nsync_mu_lock(&mu); var[order[i]]=1; nsync_mu_unlock(&mu); }
  sched_thread_end(); return 0; }
int main(int argc,char**argv){ uint64_t s0=argc>1?strtoull(argv[1],0,0):1; int n=argc>2?atoi(argv[2]):1000; NW=argc>3?atoi(argv[3]):3; int verbose=argc>4;
  for(int r=0;r<n;r++){ seed=s0*1000003+r; memset(&mu,0,sizeof mu); memset(var,0,sizeof var); pthread_t t[8]; sched_init(NW+1,seed); { extern int sched_trace; extern unsigned*sched_trace_word; sched_trace_word=(unsigned*)&mu; sched_trace = getenv("TRACE_SEED") && strtoull(getenv("TRACE_SEED"),0,0)==seed; if(sched_trace) for(long i=0;i<NW;i++){ unsigned s=(unsigned)(seed*2654435761u)+i*40503u; s^=s>>13; s*=1103515245; s^=s>>11; fprintf(stderr,"waiter %ld: var=%d fn=%d reader=%d timed=%d dl_steps=%d\n",i,s%NV,(s>>4)%2,(s>>8)&1,((s>>10)%3)==0,(s>>14)%200);} } for(long i=0;i<NW;i++) pthread_create(&t[i],0,waiter,(void*)i); pthread_create(&t[NW],0,driver,0); for(int i=0;i<=NW;i++) pthread_join(t[i],0); if(viol) return 1; }
  printf("rounds=%d ok\n",n); return 0; }
void sched_deadlock_hook(void){ fprintf(stderr,"DEADLOCK seed=%lu word=%x var=%d%d%d\n",seed,*(unsigned*)&mu,var[0],var[1],var[2]); }
