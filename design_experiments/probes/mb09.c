#define _GNU_SOURCE
#include <pthread.h>
#include <stdio.h>
#include <stdlib.h>
#include <string.h>
#include <unistd.h>
#include "nsync.h"
#include "vsched.h"
#define NN 6
#define NT 4
static const int parent_of[NN]={-1,0,0,1,1,3};
static nsync_note N[NN]; static int inF[NN]; static uint64_t seed; static int done_cnt;
static unsigned nxt(unsigned*s){ *s=*s*1103515245+12345; return *s>>16; }
static nsync_time vnow_plus(long ns){ int64_t t=sched_now_ns()+ns; nsync_time d; d.tv_sec=t/1000000000ll; d.tv_nsec=t%1000000000ll; return d; }
static nsync_time rnd_deadline(unsigned*s){ switch(nxt(s)%4){ case 0: return nsync_time_no_deadline; case 1: return nsync_time_s_ns(1,0); case 2: return vnow_plus(500+nxt(s)%8000); default: return vnow_plus(1000000000000ll);} }
static void *worker(void*a){ long id=(long)a; sched_thread_begin(id); unsigned s=(unsigned)(seed*2654435761u)+id*977u+1; nxt(&s);
  for(int k=0;k<3;k++){ int op=nxt(&s)%6; int x;
    if(op==5){ int did=0; for(x=0;x<NN;x++) if(inF[x]==(int)id+1){ inF[x]=-1; nsync_note_free(N[x]); did=1; break; } if(did) continue; op=0; }
    do { x=nxt(&s)%NN; } while(inF[x]!=0);
    switch(op){ case 0: nsync_note_notify(N[x]); break; case 1: nsync_note_is_notified(N[x]); break; case 2: nsync_note_wait(N[x],vnow_plus(nxt(&s)%6000)); break;
      case 3: { nsync_note c=nsync_note_new(N[x],rnd_deadline(&s)); nsync_note_is_notified(c); if(nxt(&s)&1) nsync_note_notify(c); nsync_note_free(c); break; }
      case 4: { nsync_mu m; nsync_cv c; nsync_mu_init(&m); nsync_cv_init(&c); nsync_mu_lock(&m); nsync_cv_wait_with_deadline(&c,&m,vnow_plus(nxt(&s)%6000),N[x]); nsync_mu_unlock(&m); break; } } }
  done_cnt++; sched_thread_end(); return 0; }
static void *ctl(void*a){ sched_thread_begin(NT); sched_wait_quiescent(); if(done_cnt!=NT){ fprintf(stderr,"DEADLOCK-at-quiescence seed=%lu done=%d\n",seed,done_cnt); _exit(42);} for(int x=NN-1;x>=0;x--) if(inF[x]>=0){ nsync_note_free(N[x]); } sched_thread_end(); return 0; }
void sched_deadlock_hook(void){ fprintf(stderr,"DEADLOCK seed=%lu\n",seed); }
int main(int argc,char**argv){ uint64_t s0=argc>1?strtoull(argv[1],0,0):1; int n=argc>2?atoi(argv[2]):1000;
  for(int r=0;r<n;r++){ seed=s0*1000003+r; unsigned q=(unsigned)seed*7919u+3; done_cnt=0; sched_init(NT+1,seed); /* objects created before threads start: not serialized, single thread */
    for(int x=0;x<NN;x++){ N[x]=nsync_note_new(parent_of[x]<0?NULL:N[parent_of[x]], (nxt(&q)%3==0)? nsync_time_s_ns(2000,0)/*far future in virtual time? virtual clock starts at 1e12 ns = 1000 s*/ : nsync_time_no_deadline); inF[x]=0; }
    int nf=nxt(&q)%3; for(int k=0;k<nf;k++){ int x=nxt(&q)%NN; if(!inF[x]) inF[x]=1+nxt(&q)%NT; }
    pthread_t t[NT+1]; for(long i=0;i<NT;i++) pthread_create(&t[i],0,worker,(void*)i); pthread_create(&t[NT],0,ctl,0); for(int i=0;i<=NT;i++) pthread_join(t[i],0); }
  printf("rounds=%d ok\n",n); return 0; }
