import sys,shutil,os,subprocess
name,relfile,old,new=sys.argv[1:5]
dst='/tmp/exp/mut/'+name
shutil.rmtree(dst,ignore_errors=True); shutil.copytree('/tmp/exp/r6',dst)
p=os.path.join(dst,relfile); s=open(p).read()
assert s.count(old)==1,(name,s.count(old))
open(p,'w').write(s.replace(old,new))
flags=sys.argv[5:] 
env=dict(os.environ,PREINC='-I/tmp/exp/shim')
subprocess.check_call(['/tmp/exp/build.sh','/tmp/exp/mut/'+name+'/lib',dst]+flags,env=env,stdout=subprocess.DEVNULL)
print('built',name)
