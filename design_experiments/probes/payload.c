long payload_data; void touch_w(void){ payload_data++; } long touch_r(void){ return payload_data; }
