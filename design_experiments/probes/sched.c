/* Prototype serialized scheduler (Mode B). Not instrumented by sanitizers. */
#define _GNU_SOURCE
#include <pthread.h>
#include <stdio.h>
#include <stdlib.h>
#include <stdint.h>
#include <string.h>
#include <errno.h>
#include <unistd.h>
#include <time.h>
#include <limits.h>
#include <sys/syscall.h>
#include <linux/futex.h>
#include "vsched.h"
#define MAXT 16
enum { ST_NONE=0, ST_RUN, ST_BLOCKED, ST_DONE, ST_WAITQ };
struct th { int state; int turn; /* futex word: 1 => may run */ int *waddr; int64_t deadline_ns; int timed; int woken; int timedout; int prio; };
int sched_trace=0; unsigned *sched_trace_word;
static struct th T[MAXT]; static int NT; static __thread int me=-1; static int cur=-1;
static uint64_t rng; static uint64_t steps, switches, sched_hash=1469598103934665603ull; static int64_t vclock_ns=1000000000ll*1000; 
static int switch_ppm=300000, fire_ppm=20000; static uint64_t step_budget=2000000; static int active=0; int sched_quiet=0;
long __real_syscall(long n, ...);
static uint64_t nx(void){ rng ^= rng<<13; rng ^= rng>>7; rng ^= rng<<17; return rng; }
static void park(int id){ while(__atomic_load_n(&T[id].turn,__ATOMIC_ACQUIRE)==0){ __real_syscall(SYS_futex,&T[id].turn,FUTEX_WAIT_PRIVATE,0,NULL,NULL,0);} __atomic_store_n(&T[id].turn,0,__ATOMIC_RELAXED); }
static void unpark(int id){ __atomic_store_n(&T[id].turn,1,__ATOMIC_RELEASE); __real_syscall(SYS_futex,&T[id].turn,FUTEX_WAKE_PRIVATE,1,NULL,NULL,0); }
void sched_dump(const char*why){ fprintf(stderr,"SCHED %s: steps=%lu switches=%lu hash=%016lx vclock=%ld\n",why,steps,switches,sched_hash,(long)vclock_ns); for(int i=0;i<NT;i++) fprintf(stderr,"  t%d state=%d waddr=%p timed=%d\n",i,T[i].state,(void*)T[i].waddr,T[i].timed); }
/* choose next thread to run; called by token holder. */
static int pick(void){ int en[MAXT], n=0; for(int i=0;i<NT;i++) if(T[i].state==ST_RUN) en[n++]=i;
  /* maybe fire a timeout */
  int timed[MAXT], nt=0; for(int i=0;i<NT;i++) if(T[i].state==ST_BLOCKED && T[i].timed) timed[nt++]=i;
  if(nt>0 && (n==0 || nx()%1000000 < (uint64_t)fire_ppm)){ int best=timed[0]; for(int k=1;k<nt;k++) if(T[timed[k]].deadline_ns<T[best].deadline_ns) best=timed[k]; if(vclock_ns<T[best].deadline_ns) vclock_ns=T[best].deadline_ns; T[best].state=ST_RUN; T[best].timedout=1; en[n++]=best; }
  if(n==0){ for(int i=0;i<NT;i++) if(T[i].state==ST_WAITQ){ T[i].state=ST_RUN; return i; } return -1; }
  if(me>=0 && T[me].state==ST_RUN && nx()%1000000 >= (uint64_t)switch_ppm) return me;
  return en[nx()%n]; }
static void handoff(void){ int nxt=pick(); if(nxt<0){ int alldone=1; for(int i=0;i<NT;i++) if(T[i].state!=ST_DONE) alldone=0; if(alldone) return; if(!sched_quiet){ extern void sched_deadlock_hook(void); sched_dump("DEADLOCK"); sched_deadlock_hook(); } fflush(stderr); _exit(42);} 
  sched_hash=(sched_hash^(uint64_t)(nxt+1))*1099511628211ull; if(nxt!=me){ switches++; cur=nxt; unpark(nxt); if(T[me].state!=ST_DONE) park(me); } }
void sched_point(void){ if(!active||me<0) return; steps++; vclock_ns+=50; if(steps>step_budget){ sched_dump("STEP BUDGET"); _exit(43);} handoff(); }
void sched_init(int nthreads,uint64_t seed){ NT=nthreads; steps=0; switches=0; sched_hash=1469598103934665603ull; me=-1; rng=seed*0x9E3779B97F4A7C15ull+1; memset(T,0,sizeof T); for(int i=0;i<NT;i++) T[i].state=ST_RUN; const char*e=getenv("SCHED"); if(e) sscanf(e,"%d,%d",&switch_ppm,&fire_ppm); active=1; cur=0; }
void sched_thread_begin(int id){ me=id; if(id!=0) park(id); else { /* thread 0 starts with token */ } }
void sched_wait_quiescent(void){ T[me].state=ST_WAITQ; handoff(); }
int sched_blocked(int id){ return T[id].state==ST_BLOCKED; }
void sched_thread_end(void){ T[me].state=ST_DONE; handoff(); me=-1; }
int64_t sched_now_ns(void){ return vclock_ns; }
void sched_stats(uint64_t*s,uint64_t*sw,uint64_t*h){*s=steps;*sw=switches;*h=sched_hash;}
/* modelled futex */
long __wrap_syscall(long n,long a,long b,long c,long d,long e,long f){
  if(n!=SYS_futex||!active||me<0) return __real_syscall(n,a,b,c,d,e,f);
  int *addr=(int*)a; int op=b&0x7f;
  if(op==FUTEX_WAIT||op==FUTEX_WAIT_BITSET){ sched_point(); if(__atomic_load_n(addr,__ATOMIC_RELAXED)!=(int)c){ errno=EAGAIN; return -1; }
     const struct timespec*ts=(const struct timespec*)d; T[me].waddr=addr; T[me].timed=0; T[me].woken=0; T[me].timedout=0;
     if(ts){ int64_t dl=(int64_t)ts->tv_sec*1000000000ll+ts->tv_nsec; if(ts->tv_sec<0){ errno=EINVAL; return -1;} if(dl<=vclock_ns){ errno=ETIMEDOUT; return -1;} T[me].timed=1; T[me].deadline_ns=dl; }
     if(sched_trace) fprintf(stderr,"T%d FUTEX_WAIT blocks timed=%d\n",me,T[me].timed); T[me].state=ST_BLOCKED; handoff(); if(sched_trace) fprintf(stderr,"T%d FUTEX_WAIT resumes timedout=%d\n",me,T[me].timedout); /* resumes when woken or timed out */ T[me].waddr=NULL; if(T[me].timedout){ errno=ETIMEDOUT; return -1;} return 0; }
  if(op==FUTEX_WAKE){ sched_point(); int cnt=0; for(int i=0;i<NT&&cnt<(int)c;i++) if(T[i].state==ST_BLOCKED&&T[i].waddr==addr){ T[i].state=ST_RUN; T[i].woken=1; T[i].timed=0; cnt++; } return cnt; }
  return __real_syscall(n,a,b,c,d,e,f); }
/* virtual clock */
#include "nsync_time.h"
nsync_time __wrap_nsync_time_now(void){ if(!active||me<0){ struct timespec ts; clock_gettime(CLOCK_REALTIME,&ts); return ts;} nsync_time t; t.tv_sec=vclock_ns/1000000000ll; t.tv_nsec=vclock_ns%1000000000ll; return t; }
void __real_nsync_yield_(void);
void __wrap_nsync_yield_(void){ if(!active||me<0){ __real_nsync_yield_(); return;} /* force a switch if possible */ int save=switch_ppm; switch_ppm=1000000; sched_point(); switch_ppm=save; }

void nsync_verif_step_(const char*f,int l){ sched_point(); if(sched_trace){ const char*b=strrchr(f,'/'); fprintf(stderr,"T%d %s:%d word=%x\n",me,b?b+1:f,l,sched_trace_word?*sched_trace_word:0);} }
