#ifndef NSYNC_VERIF_SHIM_ATOMIC_H_
#define NSYNC_VERIF_SHIM_ATOMIC_H_
#include_next "atomic.h"
#ifdef __cplusplus
extern "C" {
#endif
void nsync_verif_step_ (const char *file, int line);
#ifdef __cplusplus
}
#endif
NSYNC_CPP_START_
static __inline__ int nsync_verif_cas_ (nsync_atomic_uint32_ *p, uint32_t o, uint32_t n) { return (ATM_CAS (p, o, n)); }
static __inline__ int nsync_verif_cas_acq_ (nsync_atomic_uint32_ *p, uint32_t o, uint32_t n) { return (ATM_CAS_ACQ (p, o, n)); }
static __inline__ int nsync_verif_cas_rel_ (nsync_atomic_uint32_ *p, uint32_t o, uint32_t n) { return (ATM_CAS_REL (p, o, n)); }
static __inline__ int nsync_verif_cas_relacq_ (nsync_atomic_uint32_ *p, uint32_t o, uint32_t n) { return (ATM_CAS_RELACQ (p, o, n)); }
static __inline__ uint32_t nsync_verif_load_ (nsync_atomic_uint32_ *p) { return (ATM_LOAD (p)); }
static __inline__ uint32_t nsync_verif_load_acq_ (nsync_atomic_uint32_ *p) { return (ATM_LOAD_ACQ (p)); }
static __inline__ void nsync_verif_store_ (nsync_atomic_uint32_ *p, uint32_t v) { ATM_STORE (p, v); }
static __inline__ void nsync_verif_store_rel_ (nsync_atomic_uint32_ *p, uint32_t v) { ATM_STORE_REL (p, v); }
NSYNC_CPP_END_
#undef ATM_CAS
#undef ATM_CAS_ACQ
#undef ATM_CAS_REL
#undef ATM_CAS_RELACQ
#undef ATM_LOAD
#undef ATM_LOAD_ACQ
#undef ATM_STORE
#undef ATM_STORE_REL
#define NSV_(e) (nsync_verif_step_ (__FILE__, __LINE__), (e))
#define ATM_CAS(p,o,n) NSV_ (nsync_verif_cas_ ((nsync_atomic_uint32_ *)(p), (o), (n)))
#define ATM_CAS_ACQ(p,o,n) NSV_ (nsync_verif_cas_acq_ ((nsync_atomic_uint32_ *)(p), (o), (n)))
#define ATM_CAS_REL(p,o,n) NSV_ (nsync_verif_cas_rel_ ((nsync_atomic_uint32_ *)(p), (o), (n)))
#define ATM_CAS_RELACQ(p,o,n) NSV_ (nsync_verif_cas_relacq_ ((nsync_atomic_uint32_ *)(p), (o), (n)))
#define ATM_LOAD(p) NSV_ (nsync_verif_load_ ((nsync_atomic_uint32_ *)(p)))
#define ATM_LOAD_ACQ(p) NSV_ (nsync_verif_load_acq_ ((nsync_atomic_uint32_ *)(p)))
#define ATM_STORE(p,v) NSV_ (nsync_verif_store_ ((nsync_atomic_uint32_ *)(p), (v)))
#define ATM_STORE_REL(p,v) NSV_ (nsync_verif_store_rel_ ((nsync_atomic_uint32_ *)(p), (v)))
#endif
