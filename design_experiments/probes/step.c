#define _GNU_SOURCE
#include <sched.h>
#include <stdlib.h>
#include <stdint.h>
#include <unistd.h>
#include <time.h>
#include <stdio.h>
static __thread uint64_t rng; static __thread int inited;
int nsv_yield_ppm = 20000, nsv_spin_ppm = 20000, nsv_sleep_ppm = 500; unsigned long nsv_seed = 1;
static unsigned long ctr;
static inline uint64_t nx(void){ rng ^= rng<<13; rng ^= rng>>7; rng ^= rng<<17; return rng; }
void nsync_verif_step_(const char*f,int line){ if(!inited){ inited=1; rng = (nsv_seed*0x9E3779B97F4A7C15ull) ^ (__atomic_fetch_add(&ctr,1,__ATOMIC_RELAXED)+1)*0xBF58476D1CE4E5B9ull; if(!rng) rng=1; const char*e=getenv("NSV"); if(e){ sscanf(e,"%d,%d,%d,%lu",&nsv_yield_ppm,&nsv_spin_ppm,&nsv_sleep_ppm,&nsv_seed);} }
 unsigned r = nx()%1000000; if(r<(unsigned)nsv_yield_ppm) sched_yield(); else if(r<(unsigned)(nsv_yield_ppm+nsv_spin_ppm)){ unsigned n=nx()%2000; for(volatile unsigned i=0;i<n;i++);} else if(r<(unsigned)(nsv_yield_ppm+nsv_spin_ppm+nsv_sleep_ppm)){ struct timespec ts={0,(long)(nx()%200000)}; nanosleep(&ts,0);} }
