#!/bin/bash
# usage: sweep.sh <bin> <from> <to> <threads> <ops>
for s in $(seq $2 $3); do $1 $s $4 $5 > /tmp/exp/mb/sw.$$.out 2> /tmp/exp/mb/sw.$$.err; rc=$?; if [ $rc -ne 0 ]; then echo "seed=$s rc=$rc $(head -c 400 /tmp/exp/mb/sw.$$.err | tr '\n' ' ')"; fi; done; rm -f /tmp/exp/mb/sw.$$.*
