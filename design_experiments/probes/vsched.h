#include <stdint.h>
void sched_init(int nthreads,uint64_t seed); void sched_thread_begin(int id); void sched_thread_end(void); void sched_point(void); int64_t sched_now_ns(void); void sched_stats(uint64_t*,uint64_t*,uint64_t*); void sched_dump(const char*);
void sched_wait_quiescent(void); int sched_blocked(int id);
