"""Build the nsync sources of the tree under test, and the scenario programs, per variant."""
import os, subprocess, shutil, tempfile, atexit, signal
from concurrent.futures import ThreadPoolExecutor

VERIF = os.path.dirname(os.path.dirname(os.path.dirname(os.path.abspath(__file__))))
REPO = os.environ.get('VERIF_REPO', '/repo')

COMMON = ['internal/common.c', 'internal/counter.c', 'internal/cv.c', 'internal/debug.c', 'internal/dll.c',
          'internal/mu.c', 'internal/mu_wait.c', 'internal/note.c', 'internal/once.c', 'internal/sem_wait.c',
          'internal/time_internal.c', 'internal/wait.c']
C_OS = ['platform/posix/src/nsync_panic.c', 'platform/posix/src/per_thread_waiter.c', 'platform/posix/src/time_rep.c',
        'platform/posix/src/yield.c']
SEM_FUTEX = 'platform/linux/src/nsync_semaphore_futex.c'
SEM_MUTEX = 'platform/posix/src/nsync_semaphore_mutex.c'
CPP_OS = ['platform/linux/src/nsync_semaphore_futex.c', 'platform/posix/src/per_thread_waiter.c',
          'platform/c++11/src/yield.cc', 'platform/c++11/src/time_rep_timespec.cc', 'platform/c++11/src/nsync_panic.cc']

C_INC = ['platform/linux', 'platform/gcc', 'platform/posix', 'platform/x86_64', 'public', 'internal']
C11_INC = ['platform/c11', 'platform/linux', 'platform/gcc', 'platform/posix', 'platform/x86_64', 'public', 'internal']
CPP_INC = ['platform/c++11.futex', 'platform/c++11', 'platform/gcc', 'platform/posix', 'platform/x86_64', 'public', 'internal']

ASAN = ['-fsanitize=address,undefined', '-fno-sanitize-recover=all', '-fno-omit-frame-pointer']
TSAN_RAW = ['-fsanitize=thread', '-U__SANITIZE_THREAD__', '-fno-omit-frame-pointer']

VARIANTS = {
    'c-plain':       dict(lang='c', san=[], sem='futex'),
    'c-asan':        dict(lang='c', san=ASAN, sem='futex'),
    'c-tsan-raw':    dict(lang='c', san=TSAN_RAW, sem='futex'),
    'c11-tsan-raw':  dict(lang='c11', san=TSAN_RAW, sem='futex'),
    'c11-plain':     dict(lang='c11', san=[], sem='futex'),
    'cpp-plain':     dict(lang='cpp', san=[], sem='futex'),
    'cpp-asan':      dict(lang='cpp', san=ASAN, sem='futex'),
    'cpp-tsan-raw':  dict(lang='cpp', san=TSAN_RAW, sem='futex'),
    'c-binsem-plain': dict(lang='c', san=[], sem='mutex'),
    'c-binsem-asan':  dict(lang='c', san=ASAN, sem='mutex'),
}

WRAPS = ['syscall', 'nsync_time_now', 'nsync_yield_', 'nsync_panic_',
         '_ZN5nsync14nsync_time_nowEv', '_ZN5nsync12nsync_yield_Ev', '_ZN5nsync12nsync_panic_EPKc',
         'nsync_mu_semaphore_p', 'nsync_mu_semaphore_p_with_deadline', 'nsync_mu_semaphore_v']

_scratch = None


class BuildError(Exception):
    pass


def scratch():
    global _scratch
    if _scratch is None:
        base = os.environ.get('TMPDIR', '/tmp')
        _scratch = tempfile.mkdtemp(prefix='nsync-verif.%d.' % os.getpid(), dir=base)
        atexit.register(cleanup)
    return _scratch


def cleanup():
    global _scratch
    if _scratch and os.path.isdir(_scratch) and not os.environ.get('VERIF_KEEP'):
        shutil.rmtree(_scratch, ignore_errors=True)
    _scratch = None


def _run(cmd):
    p = subprocess.run(cmd, stdout=subprocess.PIPE, stderr=subprocess.STDOUT, text=True)
    if p.returncode != 0:
        raise BuildError('command failed: %s\n%s' % (' '.join(cmd), p.stdout[-4000:]))
    return p.stdout


def lang_flags(v):
    lang = VARIANTS[v]['lang']
    if lang == 'cpp':
        return ['g++', '-x', 'c++', '-std=c++11', '-DNSYNC_USE_CPP11_TIMEPOINT', '-DNSYNC_ATOMIC_CPP11'], CPP_INC
    if lang == 'c11':
        return ['gcc', '-std=gnu11', '-DNSYNC_ATOMIC_C11'], C11_INC
    return ['gcc'], C_INC


def includes(v, repo):
    _, inc = lang_flags(v)
    return ['-I' + os.path.join(VERIF, 'rt', 'shim')] + ['-I' + os.path.join(repo, d) for d in inc]


_libs = {}


def build_lib(v, repo=None, pool=None):
    """compile the nsync sources of `repo` for variant v; returns path of the archive"""
    repo = repo or REPO
    if (v, repo) in _libs:
        return _libs[(v, repo)]
    var = VARIANTS[v]
    out = os.path.join(scratch(), 'lib-' + v)
    os.makedirs(out, exist_ok=True)
    cc, _ = lang_flags(v)
    if var['lang'] == 'cpp':
        srcs = COMMON + CPP_OS
    else:
        srcs = COMMON + C_OS + [SEM_FUTEX if var['sem'] == 'futex' else SEM_MUTEX]
    base = cc + ['-pthread', '-g', '-O1', '-DNSYNC_VERIF'] + var['san'] + includes(v, repo)
    cmds = []
    objs = []
    for s in srcs:
        o = os.path.join(out, os.path.splitext(os.path.basename(s))[0] + '.o')
        objs.append(o)
        cmds.append(base + ['-c', os.path.join(repo, s), '-o', o])
    own = pool is None
    pool = pool or ThreadPoolExecutor(16)
    list(pool.map(_run, cmds))
    if own:
        pool.shutdown()
    lib = os.path.join(out, 'libnsync.a')
    if os.path.exists(lib):
        os.unlink(lib)
    _run(['ar', 'rcs', lib] + objs)
    _libs[(v, repo)] = lib
    return lib


_rt = {}


def build_rt():
    if 'rt' in _rt:
        return _rt['rt']
    o = os.path.join(scratch(), 'rt.o')
    _run(['gcc', '-pthread', '-g', '-O1', '-Wall', '-I' + os.path.join(VERIF, 'rt'), '-c', os.path.join(VERIF, 'rt', 'rt.c'), '-o', o])
    _rt['rt'] = o
    return o


_bins = {}


def build_scen(scen, v, repo=None, extra_wraps=(), extra_flags=(), extra_srcs=(), ldflags=()):
    """compile scen/<scen>.c against variant v and link with the runtime; returns the binary"""
    repo = repo or REPO
    key = (scen, v, repo, tuple(extra_wraps), tuple(extra_flags), tuple(ldflags))
    if key in _bins:
        return _bins[key]
    lib = build_lib(v, repo)
    rt = build_rt()
    var = VARIANTS[v]
    cc, _ = lang_flags(v)
    out = os.path.join(scratch(), 'bin-%s-%s%s' % (scen, v, '-x' if extra_flags or extra_wraps else ''))
    obj = out + '.o'
    cflags = ['-pthread', '-g', '-O1', '-DNSYNC_VERIF', '-Wall', '-Wno-unused-function'] + var['san'] + list(extra_flags)
    if var['lang'] == 'cpp':
        cflags += ['-fpermissive', '-Wno-write-strings']
    inc = includes(v, repo) + ['-I' + os.path.join(VERIF, 'rt'), '-I' + os.path.join(VERIF, 'scen')]
    _run(cc + cflags + inc + ['-c', os.path.join(VERIF, 'scen', scen + '.c'), '-o', obj])
    objs = [obj]
    for x in extra_srcs:
        xo = out + '-' + os.path.splitext(os.path.basename(x))[0] + '.o'
        _run(cc + cflags + inc + ['-c', x, '-o', xo])
        objs.append(xo)
    linker = 'g++' if var['lang'] == 'cpp' else 'gcc'
    wraps = ','.join('--wrap=' + w for w in list(WRAPS) + list(extra_wraps))
    _run([linker, '-pthread'] + var['san'] + list(ldflags) + ['-o', out] + objs + [rt, '-Wl,' + wraps, lib, '-ldl'])
    _bins[key] = out
    return out


def count_atm_sites(repo=None):
    """ATM_* call sites present in the sources (for hit / not-hit reporting)"""
    import re
    repo = repo or REPO
    sites = set()
    files = COMMON + [SEM_FUTEX, SEM_MUTEX]
    for s in files:
        try:
            with open(os.path.join(repo, s)) as f:
                for ln, line in enumerate(f, 1):
                    if re.search(r'\bATM_(CAS|LOAD|STORE)(_ACQ|_REL|_RELACQ)?\s*\(', line) and not line.lstrip().startswith(('#', '//', '*')):
                        sites.add('%s:%d' % (os.path.basename(s), ln))
        except OSError:
            pass
    return sites
