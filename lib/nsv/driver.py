"""Driver: builds, runs scenario processes, classifies outcomes, writes evidence."""
import os, sys, json, time, subprocess, re, glob, shutil, struct, threading

UNION_MAX = 1 << 24     # distinct non-trivial signatures kept when merging the per-process sets; beyond it the count is a lower bound
from concurrent.futures import ThreadPoolExecutor
from . import build
from .build import VERIF

OUT = os.path.join(VERIF, 'out')
REPLAY_DIR = os.path.join(OUT, 'replay')
# evidence describes runs against /repo itself; runs against another tree (VERIF_REPO: mutation self-test, seeded changes) must not overwrite it
EVIDENCE_DIR = os.path.join(VERIF, 'evidence') if os.path.realpath(build.REPO) == '/repo' else os.path.join(OUT, 'evidence-other-tree')
KNOWN = os.path.join(VERIF, 'known_findings.json')

RC_OK, RC_FATAL, RC_INCONCLUSIVE, RC_VIOLATION, RC_ASAN, RC_TSAN = 0, 2, 3, 10, 21, 22


def log(*a):
    print(*a, flush=True)


def load_known():
    try:
        with open(KNOWN) as f:
            return json.load(f).get('findings', [])
    except (OSError, ValueError):
        return []


# ---------------------------------------------------------------------------------------
# sanitizer report parsing

def parse_sanitizer_log(paths):
    """returns list of dicts {tool, kind, frames:[fn...], freed_by:[fn...], text}"""
    reports = []
    for p in paths:
        try:
            txt = open(p, errors='replace').read()
        except OSError:
            continue
        if not txt.strip():
            continue
        blocks = re.split(r'(?m)^(?==+\d*=*\s*ERROR: |WARNING: ThreadSanitizer|.*runtime error: )', txt)
        for b in blocks:
            m = re.search(r'ERROR: (AddressSanitizer|LeakSanitizer|UndefinedBehaviorSanitizer): ([\w-]+)', b)
            tool = kind = None
            if m:
                tool, kind = 'asan', m.group(2)
            else:
                m = re.search(r'WARNING: ThreadSanitizer: ([\w -]+?) \(', b)
                if m:
                    tool, kind = 'tsan', m.group(1).strip().replace(' ', '-')
                else:
                    m = re.search(r'runtime error: (.*)', b)
                    if m:
                        tool, kind = 'ubsan', re.sub(r'[^a-z]+', '-', m.group(1).lower())[:40].strip('-')
            if not tool:
                continue
            body = b
            if tool == 'tsan':
                body = re.split(r'\n\s+(?:Location is|Thread T\d+ \(|Mutex M\d+|As if synchronized)', b)[0]
            frames = re.findall(r'#\d+ 0x[0-9a-f]+ in (\S+)', body)
            if not frames:
                frames = re.findall(r'#\d+ (\S+) ', body)
            freed = []
            fm = re.search(r'freed by thread.*?\n((?:\s+#\d+.*\n)+)', b)
            if fm:
                freed = re.findall(r'in (\S+)', fm.group(1))
            reports.append(dict(tool=tool, kind=kind, frames=frames, freed_by=freed, text=b[:6000], path=p))
    return reports


def parse_valgrind_log(paths):
    reports = []
    for p in paths:
        try:
            txt = open(p, errors='replace').read()
        except OSError:
            continue
        for b in re.split(r'(?m)^==\d+== (?=Invalid |Conditional jump|Use of uninit|Syscall param)', txt)[1:]:
            first = b.splitlines()[0]
            frames = re.findall(r'(?:at|by) 0x[0-9A-F]+: (\S+)', b.split('Address 0x')[0])
            kind = 'invalid-' + ('write' if 'write' in first else 'read') if first.startswith('Invalid') else re.sub(r'[^a-z]+', '-', first.lower())[:30]
            freed = []
            if "free'd" in b:
                kind = 'heap-use-after-free'
                freed = re.findall(r'(?:at|by) 0x[0-9A-F]+: (\S+)', b.split("free'd")[1])[:8]
            elif "on thread" in b and 'stack' in b:
                kind = 'stack-use-after-return'
            reports.append(dict(tool='asan', kind=kind, frames=frames, freed_by=freed, text='valgrind memcheck: ' + b[:5000], path=p))
    return reports


INTERNAL_FRAMES = re.compile(r'^(__|_start|start_thread|clone|worker|main$|body$|rt_|nsync_verif_|__interceptor|__asan|__tsan|__sanitizer|operator)')


def report_signature(r):
    """function-name signature with no line numbers or addresses"""
    fr = [f for f in r['frames'] if not INTERNAL_FRAMES.match(f)]
    nsf = [f for f in fr if f.startswith('nsync') or f.startswith('nsync::') or re.match(r'^(wake_waiters|cv_|note_|counter_|notify|emit_|mu_)', f)]
    use = (nsf or fr)[:3]
    return '%s.%s' % (r['kind'], '.'.join(dict.fromkeys(use)))


# ---------------------------------------------------------------------------------------

class Proc:
    def __init__(self, group, gi, pi, seed, binary, rounds):
        self.group, self.gi, self.pi, self.seed, self.binary = group, gi, pi, seed, binary
        self.start = group.get('start', 0)
        self.rounds = rounds
        self.tag = '%s-%s-%s-g%dp%d' % (group['scen'], group['variant'], group['mode'], gi, pi)
        self.summaries = []
        self.hash_files = []
        self.restarts = 0
        self.rerun_inconclusive = 0


class Run:
    def __init__(self, prop, tier, seed, plan):
        self.prop, self.tier, self.seed, self.plan = prop, tier, seed, plan
        self.violations = []      # (key, witness_path, what)
        self.known_hits = {}
        self.notes = []
        self.excluded = 0
        self.inconclusive = 0
        self.harness_errors = []
        self.known = load_known()
        self.lock = threading.Lock()
        self.workdir = os.path.join(build.scratch(), 'run')
        os.makedirs(self.workdir, exist_ok=True)
        os.makedirs(REPLAY_DIR, exist_ok=True)
        self.stop = False

    # -- classification -------------------------------------------------------------
    def owners(self, group, w):
        fn = group.get('owners')
        s = set(fn(w, self.prop)) if fn else {self.prop}
        return s

    def handle_event(self, proc, key, owners, what, witness):
        """returns True if the process should be restarted after this event"""
        with self.lock:
            if self.prop not in owners:
                self.notes.append('NOTE: %s (owned by %s, not by this check; execution excluded) key=%s' % (what, ','.join(sorted(owners)) or '?', key))
                self.excluded += 1
                return True
            for k in self.known:
                if k.get('status') == 'known' and k.get('property') == self.prop and k.get('key') == key:
                    self.known_hits[key] = k.get('what', key)
                    return True
            name = re.sub(r'[^A-Za-z0-9_.+-]', '_', key)[:120]
            path = os.path.join(REPLAY_DIR, '%s-%s-%d.json' % (name, proc.tag, len(self.violations)))
            witness = dict(witness)
            witness['key'] = key
            witness['check'] = dict(property=self.prop, tier=self.tier, verif_seed=self.seed, group=proc.gi, proc=proc.pi,
                                    scen=proc.group['scen'], variant=proc.group['variant'], mode=proc.group['mode'],
                                    params=proc.group.get('params', {}), strategy=proc.group.get('strategy', 'mix'),
                                    wraps=list(proc.group.get('wraps', [])))
            witness['cmd'] = 'bin/check %s --replay %s' % (self.prop, os.path.relpath(path, VERIF))
            with open(path, 'w') as f:
                json.dump(witness, f, indent=1)
            self.violations.append((key, path, what))
            return False

    # -- one process ---------------------------------------------------------------
    def argv(self, proc, start, rounds, seed, summary, witness, hashes):
        g = proc.group
        a = [proc.binary, '--mode', g['mode'], '--seed', str(seed), '--start', str(start), '--rounds', str(rounds),
             '--summary', summary, '--witness', witness, '--hashes', hashes, '--strategy', g.get('strategy', 'mix'),
             '--config', g['variant'], '--property', self.prop, '--tier', self.tier,
             # the re-run after an inconclusive (watchdog) exit gets a six times longer watchdog: a stall of the whole machine must not
             # turn into 'inconclusive twice' (exit 2), still less into a Mode B 'hang' verdict
             '--watchdog', str(g.get('watchdog', 30 if g['mode'] == 'B' else 90) * (6 if proc.rerun_inconclusive else 1))]
        for k, v in g.get('params', {}).items():
            a += ['--param', '%s=%s' % (k, v)]
        return a

    def env(self, proc, logbase):
        e = dict(os.environ)
        e['ASAN_OPTIONS'] = ('detect_stack_use_after_return=1:quarantine_size_mb=%d:detect_leaks=0:exitcode=%d:log_path=%s.asan:'
                             'abort_on_error=0:handle_abort=0:allocator_may_return_null=1:max_uar_stack_size_log=16' % (proc.group.get('quarantine_mb', 256), RC_ASAN, logbase))
        e['UBSAN_OPTIONS'] = 'print_stacktrace=1:halt_on_error=1:log_path=%s.asan' % logbase
        e['TSAN_OPTIONS'] = 'halt_on_error=1:exitcode=%d:log_path=%s.tsan:report_signal_unsafe=0:history_size=5' % (RC_TSAN, logbase)
        e.update(proc.group.get('env', {}))
        return e

    def run_proc(self, proc):
        start, remaining, seed = proc.start, proc.rounds, proc.seed
        while remaining > 0 and not self.stop:
            n = len(proc.summaries) + proc.restarts + proc.rerun_inconclusive
            base = os.path.join(self.workdir, '%s-%d' % (proc.tag, n))
            summary, witness, hashes = base + '.summary.json', base + '.witness.json', base + '.hashes'
            argv = self.argv(proc, start, remaining, seed, summary, witness, hashes)
            if proc.group.get('valgrind'):
                argv = ['valgrind', '-q', '--error-exitcode=%d' % RC_ASAN, '--num-callers=14', '--log-file=' + base + '.vg'] + argv
            t0 = time.time()
            try:
                p = subprocess.run(argv, env=self.env(proc, base), stdout=subprocess.PIPE, stderr=subprocess.PIPE,
                                   timeout=proc.group.get('timeout', 1500), text=True, errors='replace')
                rc, err = p.returncode, p.stderr
            except subprocess.TimeoutExpired as ex:
                rc, err = RC_INCONCLUSIVE, 'driver timeout after %.0fs\n%s' % (time.time() - t0, (ex.stderr or b'')[-2000:] if isinstance(ex.stderr, bytes) else '')
            sanlogs = glob.glob(base + '.asan*') + glob.glob(base + '.tsan*')
            if err and re.search(r'runtime error: |ERROR: AddressSanitizer|WARNING: ThreadSanitizer', err):
                with open(base + '.stderr', 'w') as f:
                    f.write(err)
                sanlogs.append(base + '.stderr')
            if rc == RC_OK:
                try:
                    with open(summary) as f:
                        proc.summaries.append(json.load(f))
                    proc.hash_files.append(hashes)
                except (OSError, ValueError) as ex:
                    with self.lock:
                        self.harness_errors.append('%s: unreadable summary: %s' % (proc.tag, ex))
                return
            w = {}
            try:
                with open(witness) as f:
                    w = json.load(f)
            except (OSError, ValueError):
                pass
            w.setdefault('stderr_tail', err[-3000:] if err else '')
            fail_round = w.get('round')
            if rc == RC_FATAL:
                with self.lock:
                    self.harness_errors.append('%s: harness failure: %s' % (proc.tag, (err or '').strip()[-800:]))
                return
            if rc == RC_INCONCLUSIVE:
                proc.rerun_inconclusive += 1
                with self.lock:
                    self.inconclusive += 1
                    self.notes.append('INCONCLUSIVE: %s round=%s: %s' % (proc.tag, fail_round, (err or '').strip().splitlines()[-1:] or ''))
                if proc.rerun_inconclusive >= 2:
                    hang_owner = proc.group.get('hang_is_violation')
                    if hang_owner:
                        key = '%s:hang:%s:%s' % (self.prop, proc.group['scen'], hang_owner(w) if callable(hang_owner) else 'hang')
                        self.handle_event(proc, key, {self.prop}, 'the operation did not return (watchdog fired twice): %s' % key, w)
                        return
                    if proc.group['mode'] == 'B' and w.get('threads') and fail_round is not None and getattr(proc, 'hang_round', None) == fail_round:
                        # Mode B is deterministic: the same round hung twice with the same seed => a thread is stuck inside a
                        # call without reaching any scheduling point (livelock inside the library)
                        w['oracle'] = 'watchdog'
                        sig = '+'.join(sorted({'%s.%s' % (t.get('op', ''), t.get('at', '')) for t in w['threads'] if t.get('state') not in ('DONE', 'IDLE')}))
                        key = '%s:hang:%s:%s' % (self.prop, proc.group['scen'], re.sub(r'[^A-Za-z0-9_.+-]', '_', sig))
                        owners = self.owners(proc.group, w)
                        if not self.handle_event(proc, key, owners, 'no round completed within the watchdog period, twice at round %s with the same seed (Mode B): %s' % (fail_round, sig), w):
                            self.stop = True
                        return
                    with self.lock:
                        self.harness_errors.append('%s: inconclusive twice' % proc.tag)
                    return
                proc.hang_round = fail_round
                if proc.group.get('rerun_same_seed') or proc.group['mode'] == 'B':
                    continue
                seed = seed + 7919
                continue
            # violation-like outcomes
            if rc == RC_VIOLATION and w.get('oracle') != 'sanitizer':
                key = w.get('key', '%s:unknown:%s:' % (self.prop, proc.group['scen']))
                owners = self.owners(proc.group, w)
                what = '%s [%s mode %s seed %s round %s]: %s' % (w.get('oracle'), proc.group['variant'], proc.group['mode'], seed, fail_round, w.get('detail', ''))
            else:
                reports = parse_sanitizer_log(sanlogs)
                if not reports and proc.group.get('valgrind'):
                    reports = parse_valgrind_log(glob.glob(base + '.vg*'))
                if reports:
                    r = reports[0]
                    sig = report_signature(r)
                    key = '%s:%s:%s:%s' % (self.prop, r['tool'], proc.group['scen'], re.sub(r'[^A-Za-z0-9_.+-]', '_', sig))
                    w['sanitizer_report'] = r['text']
                    w['sanitizer_kind'] = r['kind']
                    w['sanitizer_frames'] = r['frames'][:12]
                    w['sanitizer_freed_by'] = r['freed_by'][:8]
                    w.setdefault('oracle', 'sanitizer')
                    w['oracle'] = r['tool']
                    owners = self.owners(proc.group, w)
                    what = '%s report %s [%s mode %s seed %s round %s]' % (r['tool'], sig, proc.group['variant'], proc.group['mode'], seed, fail_round)
                else:
                    signame = 'signal%d' % -rc if rc < 0 else 'exit%d' % rc
                    key = '%s:crash:%s:%s' % (self.prop, proc.group['scen'], signame)
                    w.setdefault('oracle', 'crash')
                    w['detail'] = 'process ended with %s; stderr tail: %s' % (signame, (err or '')[-600:])
                    owners = self.owners(proc.group, w)
                    what = 'process crashed (%s) [%s mode %s seed %s]' % (signame, proc.group['variant'], proc.group['mode'], seed)
            w.setdefault('seed', seed)
            w.setdefault('start_round', start)
            again = self.handle_event(proc, key, owners, what, w)
            if not again:
                self.stop = self.stop or not proc.group.get('continue_after_violation', False)
                return
            proc.restarts += 1
            if proc.restarts > 25 or fail_round is None:
                with self.lock:
                    self.excluded += remaining
                return
            done = fail_round - start + 1
            start, remaining = fail_round + 1, remaining - done

    # -- all --------------------------------------------------------------------------
    def execute(self):
        t0 = time.time()
        procs = []
        pool = ThreadPoolExecutor(16)
        # builds
        variants = sorted({g['variant'] for g in self.plan})
        for v in variants:
            build.build_lib(v, pool=pool)
        for g in self.plan:
            g['_bin'] = build.build_scen(g['scen'], g['variant'], extra_wraps=g.get('wraps', ()), extra_flags=g.get('cflags', ()), ldflags=g.get('ldflags', ()))
        self.build_s = time.time() - t0
        for gi, g in enumerate(self.plan):
            for pi in range(g['procs']):
                seed = (self.seed * 1000003 + gi * 10007 + pi * 101 + 1) & 0x7fffffff
                procs.append(Proc(g, gi, pi, seed, g['_bin'], g['rounds']))
        list(pool.map(self.run_proc, procs))
        pool.shutdown()
        self.procs = procs
        self.wall = time.time() - t0

    def evidence(self, level, rule, extra_assumptions=()):
        ev = 0
        counters, sites, samples = {}, {}, []
        steps = switches = faults = 0
        nt_hashes = set()
        capped = False
        distinct_sum = 0
        wv = wt = 0
        per_group = []
        for gi, g in enumerate(self.plan):
            grounds = 0
            for p in self.procs:
                if p.gi != gi:
                    continue
                for s in p.summaries:
                    grounds += s.get('rounds', 0)
                    steps += s.get('steps', 0)
                    switches += s.get('switches', 0)
                    faults += s.get('faults_fired', 0)
                    distinct_sum += s.get('distinct', 0)
                    capped = capped or bool(s.get('distinct_capped'))
                    wv = max(wv, s.get('word_values_seen', 0))
                    wt = max(wt, s.get('word_transitions_seen', 0))
                    for k, v in s.get('counters', {}).items():
                        counters[k] = counters.get(k, 0) + v
                    for k, v in s.get('sites', {}).items():
                        sites[k] = sites.get(k, 0) + v
                    for k, v in s.items():
                        if k.startswith('x_') and isinstance(v, (int, float)):
                            counters[k[2:]] = counters.get(k[2:], 0) + v
                    if len(samples) < 5 and s.get('samples'):
                        samples.append(dict(scenario=s['scenario'], config=s['config'], seed=s['seed'], **s['samples'][0]))
                salt = hash((g['scen'], g['mode'], g['variant'])) & 0xffffffffffffffff
                for hf in p.hash_files:
                    if len(nt_hashes) >= UNION_MAX:
                        capped = True
                        break
                    try:
                        with open(hf, 'rb') as fh:
                            while len(nt_hashes) < UNION_MAX:
                                data = fh.read(1 << 20)
                                if not data:
                                    break
                                nt_hashes.update(h ^ salt for (h,) in struct.iter_unpack('<Q', data[:len(data) // 8 * 8]))
                    except OSError:
                        pass
            ev += grounds
            per_group.append(dict(scenario=g['scen'], variant=g['variant'], mode=g['mode'], processes=g['procs'],
                                  rounds_run=grounds, params=g.get('params', {}), strategy=g.get('strategy', 'mix')))
        evk = getattr(self, 'evaluations_from', None)
        if evk and counters.get(evk):
            ev = int(counters[evk])
        present = build.count_atm_sites()
        hit = set(sites)
        cov = dict(evaluations=ev, distinct_nontrivial=len(nt_hashes), distinct_nontrivial_is_lower_bound=capped, rule=rule, samples=samples,
                   groups=per_group, counters=counters, atomic_steps=steps, context_switches=switches,
                   injected_futex_faults_fired=faults,
                   atm_sites_present=len(present), atm_sites_hit=len(hit & present) if present else len(hit),
                   atm_sites_not_hit=sorted(present - hit)[:200],
                   watched_mutex_word_distinct_values_max_per_process=wv, watched_mutex_word_distinct_transitions_max_per_process=wt,
                   inconclusive_executions=self.inconclusive, excluded_executions=self.excluded,
                   build_s=round(self.build_s, 1))
        d = dict(property_id=self.prop, tier=self.tier, seed=self.seed, level=level, coverage=cov,
                 assumptions=list(extra_assumptions), wall_s=round(self.wall, 2), violations=len(self.violations),
                 known_findings_hit=sorted(self.known_hits), notes=self.notes[:40])
        return d


def write_evidence(prop, d):
    os.makedirs(EVIDENCE_DIR, exist_ok=True)
    p = os.path.join(EVIDENCE_DIR, prop + '.json')
    tmp = p + '.tmp'
    with open(tmp, 'w') as f:
        json.dump(d, f, indent=1, sort_keys=False)
        f.write('\n')
    os.replace(tmp, p)


def finish(run, level, rule, assumptions=(), floor=None):
    """print verdict lines, write evidence, return exit code"""
    d = run.evidence(level, rule, assumptions)
    rc = 0
    for n in run.notes[:40]:
        log(n)
    for key, what in sorted(run.known_hits.items()):
        log('KNOWN-FINDING: property=%s %s' % (run.prop, what))
    for key, path, what in run.violations:
        log('VIOLATION property=%s replay=%s' % (run.prop, path))
        log('  key=%s' % key)
        log('  %s' % what)
        rc = 1
    if rc == 0:
        if run.harness_errors:
            for e in run.harness_errors[:10]:
                log('HARNESS: ' + e)
            rc = 2
        elif d['coverage']['evaluations'] == 0:
            log('HARNESS: no execution completed')
            rc = 2
        elif run.excluded * 2 > d['coverage']['evaluations'] + run.excluded:
            log('HARNESS: more than half of the executions were excluded')
            rc = 2
        elif floor:
            msg = floor(d['coverage'])
            if msg:
                log('INCONCLUSIVE: coverage floor missed: ' + msg)
                rc = 2
    d['verdict'] = {0: 'held on what was observed', 1: 'violated', 2: 'inconclusive / harness failure'}[rc]
    write_evidence(run.prop, d)
    c = d['coverage']
    log('%s %s: %s; %d executions, %d distinct non-trivial, %d atomic steps, sites %d/%d, %.1fs' % (
        run.prop, run.tier, d['verdict'], c['evaluations'], c['distinct_nontrivial'], c['atomic_steps'],
        c['atm_sites_hit'], c['atm_sites_present'], run.wall))
    return rc


def replay(prop, path):
    from . import plans
    with open(path) as f:
        w = json.load(f)
    c = w['check']
    g = dict(scen=c['scen'], variant=c['variant'], mode=c['mode'], params=c.get('params', {}), strategy=c.get('strategy', 'mix'),
             wraps=c.get('wraps', []), procs=1, rounds=1)
    full = plans.find_group(prop, c)
    if full:
        for k in ('cflags', 'owners', 'env', 'quarantine_mb', 'ldflags', 'valgrind'):
            if k in full:
                g[k] = full[k]
    run = Run(prop, c.get('tier', 'quick'), c.get('verif_seed', 1), [g])
    binary = build.build_scen(g['scen'], g['variant'], extra_wraps=g.get('wraps', ()), extra_flags=g.get('cflags', ()), ldflags=g.get('ldflags', ()))
    start = w.get('start_round', 0)
    rnd = w.get('round', start)
    attempts = 1 if c['mode'] == 'B' else 10
    for i in range(attempts):
        proc = Proc(g, 0, 0, w['seed'], binary, rnd - start + 1)
        proc.start = start
        run.stop = False
        run.run_proc(proc)
        if run.violations or run.known_hits:
            break
    for key, p2, what in run.violations:
        same = key == w.get('key')
        log('REPRODUCED%s key=%s replay=%s' % ('' if same else ' (different key)', key, p2))
        if w.get('schedule_hash'):
            w2 = json.load(open(p2))
            log('  schedule hash %s vs recorded %s' % (w2.get('schedule_hash'), w.get('schedule_hash')))
        log('VIOLATION property=%s replay=%s' % (prop, p2))
        return 1
    for key in run.known_hits:
        log('REPRODUCED known finding key=%s' % key)
        return 0
    log('NOT REPRODUCED in %d attempt(s)%s' % (attempts, '' if c['mode'] == 'B' else ' (Mode A re-execution is best effort)'))
    return 0


def main(argv):
    import argparse
    from . import plans
    ap = argparse.ArgumentParser()
    ap.add_argument('prop')
    ap.add_argument('--tier', default=os.environ.get('VERIF_TIER', 'quick'), choices=['quick', 'thorough'])
    ap.add_argument('--replay')
    ap.add_argument('--scale', type=float, default=float(os.environ.get('VERIF_SCALE', '1')))
    a = ap.parse_args(argv)
    seed = int(os.environ.get('VERIF_SEED', '1') or 1)
    try:
        if a.replay:
            return replay(a.prop, a.replay)
        spec = plans.PLANS.get(a.prop)
        if not spec:
            log('unknown property %s' % a.prop)
            return 2
        if 'custom' in spec:
            return spec['custom'](a.prop, a.tier, seed, a.scale)
        plan = plans.expand(a.prop, a.tier, a.scale)
        run = Run(a.prop, a.tier, seed, plan)
        run.evaluations_from = spec.get('evaluations_from')
        run.execute()
        return finish(run, spec.get('level', 'exploration'), spec['rule'], spec.get('assumptions', ()), spec.get('floor'))
    except build.BuildError as ex:
        log('HARNESS: build failed: %s' % ex)
        return 2
    finally:
        build.cleanup()
