"""Per-property plans: which scenario programs, builds, modes, sizes; who owns which oracle."""
import copy, re

# ---------------------------------------------------------------------------------------
# ownership of oracle events: the set of properties whose statement the observed event
# contradicts.  A check reports a violation only when its own property is in that set;
# other events are printed as NOTEs and the execution is excluded (DESIGN 2.4).

LOCK_SLOW = re.compile(r'\.nsync_mu_lock_slow_|\.nsync_mu_lock\b|\.nsync_mu_rlock\b')


def sanitizer_owners(w, home):
    kind = w.get('sanitizer_kind', '')
    frames = ' '.join(w.get('sanitizer_frames', []))
    freed = ' '.join(w.get('sanitizer_freed_by', []))
    tool = w.get('oracle')
    if tool == 'tsan':
        return {'C03'}
    if tool == 'ubsan':
        return {'C18', home} if 'time' in frames else {home}
    if kind == 'heap-use-after-free':
        if 'note_free' in freed or 'nsync_note' in frames:
            return {'C09'}
        s = {'C13'}
        if 'wait_n' in frames or 'wait_n' in freed:
            s.add('C11')
        return s
    if kind in ('stack-use-after-return', 'stack-use-after-scope'):
        return {'C13', 'C11'}
    if kind.endswith('buffer-overflow') or kind in ('stack-buffer-underflow', 'dynamic-stack-buffer-overflow'):
        if 'debug' in frames or 'emit_' in frames:
            return {'C16'}
        return {home}
    if kind == 'SEGV':
        if 'semaphore_p_with_deadline' in frames:
            return {'C15', home}
        return {home}
    return {home}


def blocked_categories(w):
    """classify the unfinished threads of a deadlock witness"""
    cats = set()
    for t in w.get('threads', []):
        if t.get('state') in ('DONE', 'IDLE'):
            continue
        at = t.get('at', '')
        op = t.get('op', '')
        if t.get('api_deadline_ns', 0) and at != 'nsync_mu_lock_slow_' and not t.get('timed') and t.get('api_deadline_ns') < (1 << 62):
            # asleep with no timer inside a call that was given a finite deadline: it can no longer return "as soon as the deadline has passed"
            cats.add('timed-call-asleep-untimed')
        if at == 'nsync_mu_lock_slow_' or op in ('nsync_mu_lock', 'nsync_mu_rlock'):
            cats.add('lock')
        elif at.startswith('nsync_cv_wait') or op.startswith('nsync_cv_wait'):
            cats.add('cv')
        elif at.startswith('nsync_mu_wait') or op.startswith('nsync_mu_wait'):
            cats.add('muwait')
        elif op == 'nsync_wait_n':
            cats.add('waitn')
        elif op.startswith('nsync_note') or 'note' in at:
            cats.add('note')
        elif op.startswith('nsync_counter'):
            cats.add('counter')
        elif op.startswith('nsync_run_once'):
            cats.add('once')
        elif op:
            cats.add('other')
    return cats


def word_disagrees_with_holders(w):
    st = w.get('scenario_state') or {}
    try:
        word = int(st['mu_word'], 16)
        W, R = int(st['shadow_W']), int(st['shadow_R'])
    except (KeyError, ValueError, TypeError):
        return False
    return (word & 1) != (1 if W else 0) or (word >> 8) != R


def mu_mix_owners(w, home):
    o = w.get('oracle', '')
    key = w.get('key', '')
    s = set()
    if o in ('asan', 'tsan', 'ubsan'):
        s = sanitizer_owners(w, home)
    elif o in ('exclusion', 'exclusion-canary', 'exclusion-word'):
        s = {'C01'}
    elif o == 'mode':
        s = {'C05', 'C01'} if 'wait' in key else {'C01'}
    elif o in ('deadlock', 'no-progress', 'watchdog'):
        cats = blocked_categories(w)
        if 'timed-call-asleep-untimed' in cats:
            s |= {'C05'}
        if 'lock' in cats:
            s |= {'C02'}
        if 'cv' in cats:
            s |= {'C04'}
        if 'muwait' in cats:
            s |= {'C06'}
        if 'waitn' in cats:
            s |= {'C04', 'C11'}
        if word_disagrees_with_holders(w):
            # the mutex word records a holder (or a reader count) that no thread accounts for, or the reverse: the lock's own
            # record of who holds it is corrupt, which is what the exclusion property rests on (same attribution as final-word)
            s |= {'C01', 'C02'}
        if not s:
            s = {home}
    elif o in ('trylock-blocked', 'asleep-on-free-mutex'):
        s = {'C02'}
    elif o in ('asleep-past-deadline', 'spinning-past-deadline'):
        s = {'C05'}
    elif o == 'debug-modified-word':
        s = {'C16'}
    elif o == 'asleep-although-cancelled':
        s = {'C11'} if 'wait_n' in key else {'C05'}
    elif o in ('return-reason', 'muwait-result'):
        s = {'C05'}
        if 'wait_n' in key:
            s = {'C11'}
    elif o == 'waitn-result':
        s = {'C11'}
    elif o in ('cond-during-write', 'cond-unheld', 'cond-true-asleep'):
        s = {'C06'}
    elif o == 'final-word':
        s = {'C01', 'C02'}
    elif o == 'panic':
        s = {home}
        if 'held' in key:
            s |= {'C01'}
    else:
        s = {home}
    if home == 'C16':
        s.add('C16')   # the C16 check differs from the others only by the debug-state callers it adds
    return s


# ---------------------------------------------------------------------------------------

def G(scen, variant, mode, procs, rounds, thorough=None, tier=None, **kw):
    g = dict(scen=scen, variant=variant, mode=mode, procs=procs, rounds=rounds)
    g['thorough_rounds'] = thorough if thorough is not None else rounds * 20
    if tier:
        g['tier'] = tier
    g.update(kw)
    return g


RULE_B = ('Mode B: every execution is one seeded serialized schedule of a randomly generated bounded program; two executions are '
          'distinct when the FNV hash of (generated program, sequence of scheduled threads) differs; ')
RULE_A = ('Mode A: free-running threads with seeded delay injection; distinct = hash of the stamp-ordered sequence of '
          '(thread, boundary event, result); ')

PLANS = {
    'C01': dict(
        rule=RULE_B + RULE_A + 'non-trivial = at least one acquisition or wait of the execution slept, or a try-lock failed (real contention on the mutex).',
        groups=[
            G('mu_mix', 'c-plain', 'B', 14, 16000, owners=mu_mix_owners, thorough=60000),
            G('mu_mix', 'c-asan', 'B', 2, 1200, owners=mu_mix_owners),
            G('mu_mix', 'c-plain', 'A', 4, 1500, owners=mu_mix_owners, thorough=40000),
            G('mu_mix', 'cpp-plain', 'B', 8, 20000, owners=mu_mix_owners, tier='thorough', thorough=20000),
            G('mu_mix', 'c-plain', 'B', 8, 20000, owners=mu_mix_owners, tier='thorough', thorough=20000, strategy='pct'),
        ],
        assumptions=['shadow occupancy intervals lie strictly inside the real critical sections',
                     'Mode B serializes threads: no two atomic steps are simultaneous (hardware effects outside C11 are not explored)'],
    ),
}


MU = dict(owners=mu_mix_owners)
PLANS['C02'] = dict(
    rule=RULE_B + RULE_A + 'non-trivial = at least one acquisition or wait slept, or a try-lock failed.',
    groups=[
        G('mu_mix', 'c-plain', 'B', 14, 12000, thorough=60000, **MU),
        G('mu_mix', 'c-plain', 'A', 4, 1500, thorough=40000, **MU),
    ],
)
PLANS['C16'] = dict(
    rule=RULE_B + RULE_A + 'non-trivial = the execution contained contention and debug-state calls.',
    groups=[
        G('mu_mix', 'c-plain', 'B', 14, 5000, thorough=40000, params=dict(debug=1), **MU),
        G('mu_mix', 'c-plain', 'A', 4, 1500, params=dict(debug=1), thorough=40000, **MU),
        G('debug_buf', 'c-asan', 'B', 2, 100, thorough=3000),
        G('debug_buf', 'c-asan', 'A', 1, 50, thorough=1000),
        G('debug_buf', 'cpp-asan', 'B', 1, 50, thorough=1000),
    ],
    assumptions=['condition variables that are debug-printed only carry nsync_cv_wait* waiters (nsync_cv_debug_state_and_waiters treats every queued record as a full waiter struct)'],
)
PLANS['C13'] = dict(
    rule=RULE_B + RULE_A + 'all builds are ASan (detect_stack_use_after_return=1, freed memory quarantined); non-trivial = a wait or the final acquisition of the execution slept.',
    groups=[
        G('refcount', 'c-asan', 'B', 8, 6000, thorough=60000, owners=lambda w, h: sanitizer_owners(w, h) | ({'C13'} if w.get('oracle') in ('asan', 'crash') else set()) if w.get('oracle') in ('asan', 'ubsan', 'tsan', 'crash') else mu_mix_owners(w, h)),
        G('refcount', 'c-asan', 'A', 2, 3000, thorough=60000, owners=lambda w, h: sanitizer_owners(w, h) | ({'C13'} if w.get('oracle') in ('asan', 'crash') else set()) if w.get('oracle') in ('asan', 'ubsan', 'tsan', 'crash') else mu_mix_owners(w, h)),
        G('waitn', 'c-asan', 'B', 3, 3000, thorough=40000, owners=None),
        G('cv_tokens', 'c-asan', 'B', 2, 2000, owners=None),
        G('mu_mix', 'c-asan', 'B', 4, 3000, thorough=30000, owners=None),
        G('mu_mix', 'c-asan', 'A', 2, 1000, thorough=20000, owners=None),
        G('notes', 'c-asan', 'B', 4, 4000, thorough=40000, owners=None),
        G('counter', 'c-asan', 'B', 3, 3000, owners=None),
        G('counter', 'c-asan', 'A', 1, 1500, thorough=30000, owners=None),
        G('refcount', 'cpp-asan', 'B', 4, 20000, tier='thorough', thorough=20000, owners=None),
    ],
    assumptions=['a clean ASan run is not memory safety: intra-object and far out-of-bounds accesses are invisible, the quarantine only approximates "never reused"',
                 'references to the object holding the mutex are dropped under the write lock only (a reader cannot know it is the last user)'],
)


PLANS['C06'] = dict(
    rule=RULE_B + RULE_A + 'non-trivial = at least one conditional wait of the execution slept.',
    groups=[
        G('cond_rounds', 'c-plain', 'B', 12, 4000, **MU),
        G('cond_rounds', 'c-plain', 'A', 4, 1500, thorough=40000, **MU),
        G('mu_mix', 'c-plain', 'B', 4, 2000, **MU),
        # long queues: 20..44 conditional waiters with distinct conditions (beyond the 2..4 waiters the property quantifies over;
        # added after seeded change C06d, a per-release evaluation budget of 32 conditions)
        G('cond_scale', 'c-plain', 'B', 3, 60, thorough=1500, **MU),
        G('cond_scale', 'c-plain', 'A', 1, 150, thorough=6000, **MU),
    ],
)
PLANS['C02']['groups'] += [G('cond_rounds', 'c-plain', 'B', 14, 14000, thorough=80000, **MU), G('cond_rounds', 'c-plain', 'A', 2, 1500, thorough=40000, **MU)]


def c15_owners(w, home):
    return {'C15'}


NCASE15 = 11 * 17
C15G = dict(owners=c15_owners, watchdog=15, hang_is_violation=lambda w: (w.get('round_description') or {}).get('operation', 'hang').replace(' ', '_'),
            rerun_same_seed=True, thorough=NCASE15, no_scale=True)
PLANS['C15'] = dict(
    rule='the grid operation x deadline-kind (11 timed operations x 17 deadline values incl. zero, pre-epoch, INT64_MIN+1 s, now, now+d, no_deadline-1ns, no_deadline) '
         'is enumerated completely, one case per round, on the real kernel (Mode A) in the C, C++ and ASan+UBSan builds and on the modelled futex (Mode B); '
         'distinct = distinct (operation, deadline kind, build); every case is non-trivial (each is a boundary value of the quantifier).',
    groups=[
        G('deadlines', 'c-plain', 'A', 1, NCASE15, **C15G),
        G('deadlines', 'c-asan', 'A', 1, NCASE15, **C15G),
        G('deadlines', 'cpp-plain', 'A', 1, NCASE15, **C15G),
        G('deadlines', 'c-plain', 'B', 1, NCASE15, **C15G),
        G('deadlines', 'c-plain', 'B', 1, NCASE15, params=dict(intr=1), **C15G),     # interrupted futex waits (EINTR): must not be taken for a timeout
        G('deadlines', 'c-plain', 'A', 1, NCASE15, params=dict(intr=1), **C15G),
        G('deadlines', 'c-plain', 'B', 1, NCASE15, params=dict(intr=2), **C15G),     # a spurious futex wake-up (return 0 without a post)
        G('deadlines', 'c-plain', 'A', 1, NCASE15, params=dict(intr=2), **C15G),
        G('deadlines', 'cpp-plain', 'A', 1, NCASE15, params=dict(intr=1), tier='thorough', **C15G),
        G('deadlines', 'cpp-asan', 'A', 1, NCASE15, tier='thorough', **C15G),
        G('deadlines', 'c-plain', 'A', 4, NCASE15, tier='thorough', params=dict(noperturb=0), **C15G),
    ],
    assumptions=['a hang is reported only after the watchdog fired in two consecutive executions of the same case'],
)


def notes_owners(w, home):
    o = w.get('oracle', '')
    if o in ('asan', 'tsan', 'ubsan'):
        return sanitizer_owners(w, home)
    if o in ('note-monotone', 'note-unjustified', 'note-after-notify', 'note-spontaneous', 'notify-returned-unnotified', 'expiry', 'wait-result'):
        return {'C08'}
    if o == 'waiter-asleep-after-notify':
        return {'C08', 'C09'}   # released-on-notification (C08); with frees in the round the adoption clause (C09) is involved too
    if o == 'note-not-propagated':
        return {'C08', 'C09'} if 'adopted' in w.get('key', '') else {'C08'}
    if o in ('deadlock', 'no-progress'):
        s = {'C09'}
        for t in w.get('threads', []):
            if t.get('state') not in ('DONE', 'IDLE') and t.get('op') in ('nsync_note_wait', 'nsync_cv_wait_with_deadline'):
                s.add('C08')
        return s
    if o in ('crash', 'panic'):
        return {'C09', home}
    return {home}


NOTES = dict(owners=notes_owners)
PLANS['C09'] = dict(
    rule=RULE_B + RULE_A + 'non-trivial = a worker freed a note or a wait slept during the execution.',
    groups=[
        G('notes', 'c-asan', 'B', 10, 2500, **NOTES),
        G('notes', 'c-plain', 'B', 4, 4000, **NOTES),
        G('notes', 'c-asan', 'A', 2, 1500, thorough=30000, **NOTES),
    ],
    assumptions=['ASan with a 256 MB quarantine: a freed note is not reused within an execution'],
)
PLANS['C08'] = dict(
    rule=RULE_B + RULE_A + 'non-trivial = a worker freed a note or a wait slept during the execution.',
    groups=[
        G('notes', 'c-plain', 'B', 8, 3000, params=dict(free=0), **NOTES),
        G('notes', 'c-plain', 'B', 4, 3000, **NOTES),
        G('notes', 'c-plain', 'A', 4, 1500, params=dict(free=0), thorough=30000, **NOTES),
    ],
)


PLANS['C17'] = dict(
    evaluations_from='operations_applied',
    rule='round 0 of each process enumerates every valid operation sequence to depth D over K elements and 2 lists (exhaustive for that bound; D=5,K=4 quick; D=6,K=5 thorough); '
         'later rounds are random 300-operation sequences over 6 elements and 3 lists; after every operation all lists are compared with array models forwards and backwards. '
         'distinct_nontrivial = distinct abstract list configurations reached in which some list has at least two elements.',
    groups=[
        G('dll_seq', 'c-asan', 'A', 1, 2000, thorough=100000, params=dict(depth=5, elems=4)),
        G('dll_seq', 'cpp-asan', 'A', 1, 2000, thorough=100000, params=dict(depth=4, elems=4)),
        G('dll_seq', 'c-plain', 'A', 1, 1, tier='thorough', thorough=1, params=dict(depth=6, elems=5), no_scale=True),
    ],
)


PLANS['C18'] = dict(
    evaluations_from='cmp_checked',
    rule='round 0 of each process is the complete boundary grid (25 second values x 8 nanosecond values, squared) for add/sub/cmp/(a+b)-b plus boundary arguments of ms/us/s_ns; '
         'each later round is 200 000 random pairs and 200 000 random scalar arguments; every result is compared with __int128 arithmetic under UBSan. '
         'distinct_nontrivial = distinct (a,b) pairs checked (hash of the 128-bit pair); pairs that overflow the seconds field are skipped and counted.',
    groups=[
        G('time_arith', 'c-asan', 'A', 2, 6, thorough=60),
        G('time_arith', 'cpp-asan', 'A', 2, 6, thorough=60),
    ],
)


AF = dict(wraps=['malloc', 'calloc'], ldflags=['-rdynamic'])
PLANS['C19'] = dict(
    level='fault_enumeration',
    rule='fault enumeration: round r fails the (r mod 17)-th allocation (malloc or calloc) made by a thread while it is inside a constructor call '
         '(nsync_note_new / nsync_counter_new, bracketed by the harness; wherever in the library the allocation is made) while a tree of 7 notes and 3 counters is built, '
         'the root is notified, and four more notes are created under parents that are already notified or expired '
         '(12 constructor calls by the builder; indices beyond the number of calls are control rounds), single-threaded and with a second thread contending for the root; '
         'every placement of one failure among the constructor allocations of the scenario is enumerated in each build and mode. '
         'distinct_nontrivial = distinct (failed index, thread count, schedule/history) executions in which a constructor returned NULL.',
    groups=[
        G('alloc_fail', 'c-asan', 'B', 2, 34 * 16, thorough=34 * 320, **AF),
        G('alloc_fail', 'c-asan', 'A', 2, 34 * 8, thorough=34 * 160, **AF),
        G('alloc_fail', 'cpp-asan', 'B', 1, 34 * 8, thorough=34 * 160, **AF),
        G('alloc_fail', 'c-plain', 'A', 1, 34 * 8, thorough=34 * 160, **AF),
    ],
    assumptions=['only allocations made during a constructor call are failed; allocations of the waiter pool (caller inside nsync_waiter_new_: nsync_mu_lock under contention) are counted and left alone'],
)


PLANS['C07'] = dict(
    rule=RULE_B + RULE_A + 'non-trivial = some call found the once already claimed (a loser) or slept.',
    groups=[
        G('once', 'c-plain', 'B', 12, 3000),
        G('once', 'c-plain', 'A', 4, 1500, thorough=40000),
        G('once', 'cpp-plain', 'B', 4, 20000, tier='thorough', thorough=20000),
    ],
)


PLANS['C10'] = dict(
    rule=RULE_B + RULE_A + 'non-trivial = a wait slept, or the round was a mixed +1/-1 round checked by exhaustive linearization search.',
    groups=[
        G('counter', 'c-plain', 'B', 12, 3000),
        G('counter', 'c-plain', 'A', 4, 1500, thorough=40000),
        G('counter', 'c-asan', 'B', 2, 1500),
        G('counter', 'cpp-plain', 'B', 4, 20000, tier='thorough', thorough=20000),
    ],
)


PLANS['C12'] = dict(
    level='fault_enumeration',
    rule='fault enumeration: round r applies fault plan r mod 154 = every placement of at most two injected early kernel returns (EINTR / EAGAIN / premature ETIMEDOUT) among the '
         'first six kernel waits of the waiter, under a seeded schedule (Mode B, modelled futex) or on the real kernel with additional random injection (Mode A); '
         'the binary (mutex+condvar) flavour runs the post/ack handshake rounds on the real primitives. '
         'distinct_nontrivial = distinct (plan, posts, schedule/history) executions in which a wait slept.',
    groups=[
        G('semaphore', 'c-plain', 'B', 8, 154 * 12, thorough=154 * 400),
        G('semaphore', 'c-plain', 'A', 4, 154 * 6, thorough=154 * 200),
        G('semaphore', 'c-binsem-plain', 'A', 2, 600, thorough=20000, params=dict(binsem=1)),
        G('semaphore', 'cpp-plain', 'B', 2, 154 * 4, thorough=154 * 100),
    ],
    assumptions=['the Mode B futex is a model: compare-and-block atomic, wake <= n waiters on the address, absolute timeout on the virtual clock, EINVAL for negative tv_sec'],
)


PLANS['C14'] = dict(
    rule='Mode B: a scheduling adversary lets try-lock-only bargers re-take the mutex whenever the victim has been woken and before it runs; Mode A: the victim sleeps 300 us after every wake-up. '
         'distinct = hash of (mix, bargers, schedule / sleeps per acquisition); non-trivial = the victim slept at least once inside a lock call.',
    groups=[
        G('starve', 'c-plain', 'B', 14, 500, thorough=6000, strategy='rw'),
        G('starve', 'c-plain', 'A', 8, 12, thorough=300),
        G('starve', 'cpp-plain', 'B', 2, 100, thorough=2000, strategy='rw'),
    ],
    floor=lambda c: None if c['counters'].get('long_wait_bit_set', 0) > 0 else 'the adversary never drove a victim to the long-wait threshold',
)


def cv_owners(w, home):
    o = w.get('oracle', '')
    if o in ('asan', 'tsan', 'ubsan'):
        return sanitizer_owners(w, home)
    if o in ('lost-wakeup', 'swallowed-signal', 'reader-rule'):
        return {'C04'}
    if o == 'leftover-registration':
        return {'C11', 'C04'}
    if o == 'waitn-result':
        return {'C11', 'C04'}
    return mu_mix_owners(w, home)


PLANS['C04'] = dict(
    rule=RULE_B + RULE_A + 'non-trivial = at least one wait of the execution slept (a waiter was really on the queue when the wake-up was issued).',
    groups=[
        G('cv_tokens', 'c-plain', 'B', 14, 20000, thorough=80000, owners=cv_owners),
        G('cv_tokens', 'c-plain', 'A', 4, 600, thorough=20000, owners=cv_owners),
        G('mu_mix', 'c-plain', 'B', 2, 2000, **MU),
        G('cv_tokens', 'c-asan', 'B', 2, 1500, owners=cv_owners),
        G('cv_tokens', 'c-binsem-plain', 'A', 2, 300, thorough=10000, owners=cv_owners, params=dict(binsem=1), tier='thorough'),
    ],
)


def waitn_owners(w, home):
    o = w.get('oracle', '')
    if o in ('asan', 'tsan', 'ubsan'):
        s = sanitizer_owners(w, home)
        return s | ({'C11'} if 'C13' in s else set())
    if o in ('waitn-result', 'waitn-order', 'leftover-registration', 'mode', 'waitn-asleep-ready'):
        return {'C11'}
    if o in ('deadlock', 'no-progress'):
        return {'C11'}
    if o in ('crash', 'panic'):
        return {'C11', home}
    return {home}


PLANS['C11'] = dict(
    rule=RULE_B + RULE_A + 'non-trivial = at least one nsync_wait_n call of the execution slept.',
    groups=[
        G('waitn', 'c-asan', 'B', 8, 5000, thorough=50000, owners=waitn_owners),
        G('waitn', 'c-plain', 'B', 6, 8000, thorough=60000, owners=waitn_owners),
        G('waitn', 'c-asan', 'A', 4, 800, thorough=20000, owners=waitn_owners),
        G('mu_mix', 'c-asan', 'B', 2, 1000, **MU),
    ],
)


def c03_owners(w, home):
    if w.get('oracle') == 'tsan':
        return {'C03'}
    return mu_mix_owners(w, home) | notes_owners(w, home) - {home} if w.get('oracle') not in ('crash', 'panic') else {home}


def c03_groups():
    gs = []
    for v, procs in (('c-tsan-raw', 3), ('cpp-tsan-raw', 2), ('c11-tsan-raw', 2)):
        gs += [G('hb', v, 'B', procs, 900, owners=c03_owners, thorough=18000),
               G('hb', v, 'A', 1, 600, owners=c03_owners, thorough=12000),
               G('mu_mix', v, 'B', procs, 400, owners=c03_owners, thorough=8000),
               G('cond_rounds', v, 'B', 1, 400, owners=c03_owners, thorough=8000)]
    gs += [G('mu_mix', 'c-tsan-raw', 'A', 2, 300, owners=c03_owners, thorough=6000)]
    return gs


PLANS['C03'] = dict(
    rule=RULE_B + RULE_A + 'all three atomic mappings (gcc builtins, std::atomic, C11 stdatomic) are built with -fsanitize=thread -U__SANITIZE_THREAD__ so that ThreadSanitizer sees only the declared memory orders; '
         'non-trivial = the execution performed at least one plain payload access on each side of a hand-off (every hb round; mu_mix/cond_rounds rounds with contention).',
    groups=c03_groups(),
    assumptions=['decided relative to ThreadSanitizer\'s happens-before model (release sequences continue across any later store; bounded access history)',
                 'the Mode B runtime is not instrumented and hands the token over with relaxed atomics and raw futex calls: it contributes no happens-before edge',
                 'nothing is claimed for ATM_* sites the workloads did not reach (listed under atm_sites_not_hit)'],
)


PLANS['C05'] = dict(
    rule=RULE_B + RULE_A + 'non-trivial = at least one timed or cancellable wait of the execution slept (its deadline / note / wake-up raced).',
    groups=[
        G('mu_mix', 'c-plain', 'B', 14, 14000, thorough=60000, **MU),
        G('cond_rounds', 'c-plain', 'B', 6, 6000, thorough=60000, **MU),
        G('cv_tokens', 'c-plain', 'B', 2, 2000, owners=cv_owners),
        G('mu_mix', 'c-plain', 'A', 2, 1500, thorough=40000, **MU),
        G('mu_mix', 'cpp-plain', 'B', 4, 20000, tier='thorough', thorough=20000, **MU),
    ],
)


def c13_owners(w, home):
    o = w.get('oracle', '')
    if o in ('asan', 'ubsan', 'tsan'):
        return sanitizer_owners(w, home)
    if o == 'crash':
        return {home}
    sc = w.get('scenario', '')
    if sc == 'waitn':
        return waitn_owners(w, home)
    if sc == 'cv_tokens':
        return cv_owners(w, home)
    if sc == 'notes':
        return notes_owners(w, home)
    return mu_mix_owners(w, home)


for _g in PLANS['C13']['groups']:
    _g['owners'] = c13_owners


# the binary (mutex + condition variable) semaphore flavour: real pthread primitives, Mode A only
BINSEM = dict(params=dict(binsem=1))
PLANS['C01']['groups'].append(G('mu_mix', 'c-binsem-plain', 'A', 2, 600, thorough=30000, owners=mu_mix_owners, **BINSEM))
PLANS['C02']['groups'].append(G('mu_mix', 'c-binsem-plain', 'A', 2, 600, thorough=30000, owners=mu_mix_owners, **BINSEM))
# second allocator / red-zone policy as an independent oracle (thorough tier only): valgrind memcheck on the plain builds
for _sc, _n in (('refcount', 4000), ('waitn', 1500), ('notes', 2000)):
    PLANS['C13']['groups'].append(G(_sc, 'c-plain', 'B', 2, _n, tier='thorough', thorough=_n, owners=c13_owners, valgrind=True, timeout=3000))
PLANS['C09']['groups'].append(G('notes', 'c-plain', 'B', 3, 1500, tier='thorough', thorough=1500, valgrind=True, timeout=3000, **NOTES))
# thread churn: sections run by short-lived pthreads (waiter structs returned to the pool by the thread-exit destructor)
PLANS['C02']['groups'].append(G('mu_mix', 'c-plain', 'B', 4, 1500, owners=mu_mix_owners, params=dict(churn=1)))
PLANS['C02']['groups'].append(G('mu_mix', 'c-plain', 'A', 2, 600, thorough=20000, owners=mu_mix_owners, params=dict(churn=1)))
PLANS['C13']['groups'].append(G('mu_mix', 'c-asan', 'B', 2, 800, owners=c13_owners, params=dict(churn=1)))
# long waiters: the starve scenario's mix 7 (random schedule after escalation, release while the long waiter holds the queue spinlock);
# a thread that never gets the mutex there is C02's concern (added after seeded change C02f)
PLANS['C02']['groups'].append(G('starve', 'c-plain', 'B', 4, 120, thorough=4000, strategy='rw', owners=mu_mix_owners, params=dict(mix=7)))
PLANS['C02']['groups'].append(G('cond_rounds', 'c-binsem-plain', 'A', 1, 600, thorough=30000, owners=mu_mix_owners, **BINSEM))
for _g in PLANS['C04']['groups']:
    if _g['variant'] == 'c-binsem-plain':
        _g.pop('tier', None)
        _g['rounds'] = 400


def need(*names):
    """coverage floor: every named counter must be > 0, otherwise the run observed nothing of that kind and is inconclusive"""
    def f(cov):
        miss = [n for n in names if not cov['counters'].get(n)]
        return ('never observed: ' + ', '.join(miss)) if miss else None
    return f


PLANS['C01']['floor'] = need('acquisitions_that_slept', 'trylock_ok', 'cvwait_timedout', 'muwait_timedout', 'waitn_ready', 'cvwait_cancelled')
PLANS['C02']['floor'] = need('acquisitions_that_slept', 'trylock_failed', 'short_lived_threads', 'driver_acquisitions_that_slept')
PLANS['C03']['floor'] = need('once_edges', 'note_edges', 'counter_edges', 'signal_edges', 'mutex_edges', 'child_note_edges')
PLANS['C04']['floor'] = need('broadcast_rounds', 'signal_rounds', 'rounds_where_a_timeout_raced_the_wakeup', 'wakeups_issued_holding_the_mutex', 'reader_rule_checks', 'wait_n_waiters')
PLANS['C05']['floor'] = need('cvwait_timedout', 'cvwait_cancelled', 'muwait_timedout', 'muwait_cancelled', 'waits_timedout')
PLANS['C06']['floor'] = need('waits_that_slept', 'quiescence_checks', 'rounds_with_same_fn_diff_arg_neighbours', 'waits_with_condition_arg_eq', 'unlock_without_wakeup', 'reader_mode_waits')
PLANS['C07']['floor'] = need('losers_that_slept', 'calls_on_done_once', 'nested_once_runs', 'rounds_with_shared_lock_slot')
PLANS['C08']['floor'] = need('observations_notified', 'observations_not_notified', 'propagation_checks', 'untriggered_checks', 'cv_waits_cancelled')
PLANS['C09']['floor'] = need('frees_by_workers', 'frees_of_notes_with_live_children', 'children_created_by_workers', 'propagation_checks')
PLANS['C10']['floor'] = need('waits_that_slept', 'waits_timed_out', 'waits_started_after_zero', 'mixed_rounds')
PLANS['C11']['floor'] = need('calls_that_slept', 'calls_with_5_objects_heap_path', 'calls_ready_at_entry', 'returned_count', 'calls_with_mutex')
PLANS['C12']['floor'] = need('waits_that_slept', 'timeouts_at_or_after_deadline', 'handshake_rounds')
PLANS['C13']['floor'] = need('objects_freed_by_last_user', 'final_acquisitions_that_slept', 'calls_with_5_objects_heap_path')
PLANS['C15']['floor'] = need('expired_deadline_cases', 'near_future_cases', 'blocking_cases')
PLANS['C16']['floor'] = need('debug_calls', 'debug_calls_made_inside_a_condition_evaluation', 'quiescent_states_checked', 'truncated_cases', 'fitting_cases')
PLANS['C19']['floor'] = need('note_new_null', 'counter_new_null', 'rounds_without_failure', 'null_seen_by_concurrent_thread', 'null_returns_with_notified_or_expired_parent')


THOROUGH_FACTOR = 8


def expand(prop, tier, scale=1.0):
    spec = PLANS[prop]
    out = []
    for g in spec['groups']:
        if g.get('tier') and g['tier'] != tier:
            continue
        g = copy.copy(g)
        if tier == 'thorough':
            # thorough = as deep as is practical: the per-group thorough size times THOROUGH_FACTOR (10-25 minutes per property on 16 cores)
            g['rounds'] = g['thorough_rounds'] * (1 if g.get('no_scale') or g.get('valgrind') else THOROUGH_FACTOR)
            g['timeout'] = g.get('timeout', 1500) * 8
        if not g.get('no_scale'):
            g['rounds'] = max(1, int(g['rounds'] * scale))
        out.append(g)
    return out


def find_group(prop, c):
    spec = PLANS.get(prop)
    if not spec:
        return None
    for g in spec.get('groups', []):
        if g['scen'] == c['scen'] and g['variant'] == c['variant'] and g['mode'] == c['mode']:
            return g
    return None


# "scale" scenario: the wakes-everybody clauses with 20..44 waiters (beyond the 2..4 the small scenarios use and the properties
# quantify over; a fixed limit -- batch size, budget, small array -- is a realistic kind of change that no small scenario can see;
# added after seeded change C06d).  Every event of the scenario is owned by the check that runs it.
for _prop, _kinds in (('C04', (0, 1)), ('C10', (2,)), ('C08', (3,)), ('C11', (4,))):
    for _k in _kinds:
        PLANS[_prop]['groups'] += [G('scale', 'c-plain', 'B', 1, 40, thorough=1200, params=dict(kind=_k)),
                                   G('scale', 'c-asan', 'A', 1, 60, thorough=2400, params=dict(kind=_k))]
