/* Runtime for the nsync runtime-monitoring checks (DESIGN.md sections 2, 3, 11).

   Compiled WITHOUT any sanitizer instrumentation and linked into every scenario
   program together with the nsync sources of the tree under test.  It provides

     - the step hooks called by rt/shim/atomic.h before/after every ATM_* operation,
     - Mode A: free-running threads with seeded delay injection, a quiescence/deadlock
       detector built on the wrapped futex system call,
     - Mode B: a serialized schedule fuzzer (one runnable thread at a time, token passed
       with relaxed atomics + raw futex), a modelled futex and a virtual clock,
     - link-time wrappers (--wrap) for syscall, nsync_time_now, nsync_yield_, nsync_panic_
       (C and C++ symbol names), malloc, and the binary-semaphore entry points,
     - the round driver (main), witness and summary writers.

   Nothing here includes an nsync header: nsync_time is struct timespec in both default
   builds. */
#define _GNU_SOURCE
#include <pthread.h>
#include <stdio.h>
#include <stdlib.h>
#include <stdint.h>
#include <stdarg.h>
#include <string.h>
#include <errno.h>
#include <unistd.h>
#include <time.h>
#include <signal.h>
#include <sched.h>
#include <limits.h>
#include <execinfo.h>
#include <fcntl.h>
#include <sys/syscall.h>
#include <linux/futex.h>
#include "rt.h"

#define NSV_CAS 1
#define NSV_STORE 7
#define NSV_STORE_REL 8
static const char *const op_names[] = { "?", "CAS", "CAS_ACQ", "CAS_REL", "CAS_RELACQ", "LOAD", "LOAD_ACQ", "STORE", "STORE_REL",
	"YIELD", "FUTEX_WAIT", "FUTEX_WAKE", "HARNESS", "BLOCK", "RESUME", "TIMEOUT", "FAULT" };
enum { EV_YIELD = 9, EV_FWAIT, EV_FWAKE, EV_HARNESS, EV_BLOCK, EV_RESUME, EV_TIMEOUT, EV_FAULT };

/* ------------------------------------------------------------------------------------ */
/* configuration */
static int mode_b = 1;
static int tier_thorough = 0;
static uint64_t base_seed = 1;
static uint64_t start_round = 0, n_rounds = 100, cur_round = 0;
static const char *summary_path, *witness_path, *hashes_path;
static int trace = 0;
static const char *strategy = "mix";     /* rw | pct | mix */
static uint64_t step_budget = 2000000;
static int watchdog_s = 60;
static struct { char name[48]; long v; } params[32];
static int n_params;
static int samples_wanted = 3;
static const char *config_name = "";

int rt_mode_b (void) { return (mode_b); }
int rt_tier_thorough (void) { return (tier_thorough); }
int rt_self (void);
uint64_t rt_round (void) { return (cur_round); }
long rt_param (const char *name, long dflt) {
	for (int i = 0; i < n_params; i++) if (strcmp (params[i].name, name) == 0) return (params[i].v);
	return (dflt);
}

/* ------------------------------------------------------------------------------------ */
/* threads */
enum { ST_IDLE = 0, ST_RUN, ST_BLOCKED, ST_WAITQ, ST_DONE };
static const char *const st_names[] = { "IDLE", "RUNNABLE", "BLOCKED", "WAIT_QUIESCENT", "DONE" };
struct th {
	int state;                /* Mode B: scheduler state; Mode A: ST_RUN / ST_WAITQ / ST_DONE */
	int turn;                 /* Mode B: private futex word, 1 => may run */
	int *waddr;               /* futex address blocked on */
	int wval;
	int64_t deadline_ns;
	int timed, timedout;
	long prio;
	/* Mode A flags, written by the thread itself, read by the monitor */
	int a_blocked, a_timed, a_slot; unsigned a_vgen;
	int *a_addr;
	int in_round;
	const char *op;
	const volatile void *lock_addr;
	const char *at;           /* nsync function of the last atomic step outside the semaphore files */
	unsigned op_sleeps, op_steps;
	int64_t op_deadline_ns;
	int op_deadline_strict;
	unsigned free_yields;     /* yields made inside a strict-deadline call, past the deadline, while the watched mutex word showed no holder */
	unsigned long sleeps;
	uint64_t rng;
	int fault_plan[32]; int n_fault; int futex_waits;
	int last_ring;
	unsigned wake_delay_us;
	char pad[64];
};
static struct th T[RT_MAXT];
static int NT;                       /* participants this round */
static __thread int me = -1;
static uint64_t main_rng = 1;

static inline uint64_t xs (uint64_t *s) { uint64_t x = *s; x ^= x << 13; x ^= x >> 7; x ^= x << 17; *s = x; return (x); }
static inline uint64_t mix64 (uint64_t z) { z += 0x9E3779B97F4A7C15ull; z = (z ^ (z >> 30)) * 0xBF58476D1CE4E5B9ull; z = (z ^ (z >> 27)) * 0x94D049BB133111EBull; return (z ^ (z >> 31)); }
int rt_self (void) { return (me); }
void rt_adopt (int tid) { me = tid; }
void rt_wake_delay_us (int tid, unsigned us) { T[tid].wake_delay_us = us; }
uint64_t rt_rand (void) { return (xs (me >= 0 ? &T[me].rng : &main_rng)); }
unsigned rt_rand_n (unsigned n) { return ((unsigned) ((rt_rand () >> 11) % n)); }
int rt_chance (unsigned ppm) { return ((rt_rand () >> 11) % 1000000u < ppm); }

/* ------------------------------------------------------------------------------------ */
/* global counters */
static uint64_t g_stamp;             /* logical stamp; every step and wrapper entry bumps it */
static uint64_t round_steps, total_steps, round_switches, total_switches;
static uint64_t sched_hash;
static int round_nontrivial;
static uint64_t faults_fired;
static unsigned fault_ppm;
static long cover[64]; static const char *cover_names[64];
void rt_cover (int c) { __atomic_fetch_add (&cover[c & 63], 1, __ATOMIC_RELAXED); }
void rt_cover_add (int c, long v) { __atomic_fetch_add (&cover[c & 63], v, __ATOMIC_RELAXED); }
void rt_cover_name (int c, const char *n) { cover_names[c & 63] = n; }
void rt_mark_nontrivial (void) { __atomic_store_n (&round_nontrivial, 1, __ATOMIC_RELAXED); }
uint64_t rt_stamp (void) { return (__atomic_add_fetch (&g_stamp, 1, __ATOMIC_RELAXED)); }
unsigned long rt_faults_fired (void) { return (faults_fired); }
void rt_fault_random (unsigned ppm) { fault_ppm = ppm; }
void rt_fault_plan (int tid, const int *errs, int n) {
	if (n > 32) n = 32;
	for (int i = 0; i < n; i++) T[tid].fault_plan[i] = errs[i];
	T[tid].n_fault = n;
}

/* ---- sites ---- */
#define NSITE 1024
static struct site { const char *file; int line; unsigned long hits; } sites[NSITE];
static int focus_site = -1;          /* Mode A focus mode */
static inline int site_of (const char *file, int line) {
	unsigned h = (unsigned) ((((uintptr_t) file) >> 3) * 31u + (unsigned) line * 2654435761u) % NSITE;
	for (int k = 0; k < NSITE; k++) {
		struct site *s = &sites[(h + k) % NSITE];
		const char *f = __atomic_load_n (&s->file, __ATOMIC_RELAXED);
		if (f == file && s->line == line) return ((int) ((h + k) % NSITE));
		if (f == NULL) {
			const char *exp = NULL;
			if (__atomic_compare_exchange_n (&s->file, &exp, file, 0, __ATOMIC_RELAXED, __ATOMIC_RELAXED)) {
				s->line = line; return ((int) ((h + k) % NSITE));
			}
			if (exp == file) { /* racing insert of same file: line may be set later */
				while (__atomic_load_n (&s->line, __ATOMIC_RELAXED) == 0) { }
				if (s->line == line) return ((int) ((h + k) % NSITE));
			}
		}
	}
	return (0);
}

/* ---- ring of recent events ---- */
#define RING 4096
static struct rev { uint64_t stamp; const char *file; const void *addr; int line; short tid; short op; uint32_t old_v, new_v; int ok; } ring[RING];
static uint64_t ring_idx;
static int ring_on = 1;
static inline int ring_put (int op, const char *file, int line, const void *addr) {
	uint64_t i = __atomic_fetch_add (&ring_idx, 1, __ATOMIC_RELAXED);
	struct rev *e = &ring[i % RING];
	e->stamp = g_stamp; e->file = file; e->line = line; e->addr = addr; e->tid = (short) me; e->op = (short) op;
	e->old_v = 0; e->new_v = 0; e->ok = -1;
	return ((int) (i % RING));
}

/* ---- notes ring ---- */
#define NOTES 256
static char notes[NOTES][160];
static uint64_t notes_idx;
void rt_note (const char *fmt, ...) {
	uint64_t i = __atomic_fetch_add (&notes_idx, 1, __ATOMIC_RELAXED);
	char *b = notes[i % NOTES];
	int n = snprintf (b, 160, "[%llu t%d] ", (unsigned long long) g_stamp, me);
	va_list ap; va_start (ap, fmt); vsnprintf (b + n, 160 - (size_t) n, fmt, ap); va_end (ap);
}

/* ---- distinct values / transitions of watched words (state coverage for the evidence) ---- */
#define WSET 8192
static uint64_t wvals[WSET], wtrans[WSET]; static long wvals_n, wtrans_n;
static void wset_add (uint64_t *set, long *cnt, uint64_t key) {
	uint64_t k = key * 0x9E3779B97F4A7C15ull | 1; size_t i = (size_t) (k >> 20) % WSET;
	for (int n = 0; n < 64; n++, i = (i + 1) % WSET) {
		uint64_t cur = __atomic_load_n (&set[i], __ATOMIC_RELAXED);
		if (cur == k) return;
		if (cur == 0) { uint64_t z = 0; if (__atomic_compare_exchange_n (&set[i], &z, k, 0, __ATOMIC_RELAXED, __ATOMIC_RELAXED)) { __atomic_fetch_add (cnt, 1, __ATOMIC_RELAXED); return; } if (z == k) return; }
	}
}

/* ---- watched words ---- */
static struct { const volatile void *addr; rt_word_cb cb; } watched[8];
void rt_watch_word (int idx, const volatile void *addr, rt_word_cb cb) { watched[idx & 7].cb = cb; __atomic_store_n (&watched[idx & 7].addr, addr, __ATOMIC_RELEASE); }

/* ---- round signature (Mode A: merged per-thread logs) ---- */
#define EVCAP 2048
static struct evl { uint64_t stamp; uint32_t code; } evlog[RT_MAXT + 1][EVCAP];
static int evn[RT_MAXT + 1];
static uint64_t sig_hash;
#define FNV_INIT 1469598103934665603ull
static inline uint64_t fnv (uint64_t h, uint64_t v) { return ((h ^ v) * 1099511628211ull); }
void rt_ev (uint32_t code) {
	if (mode_b && me >= 0) { sched_hash = fnv (sched_hash, ((uint64_t) (me + 1) << 32) | code); return; }
	if (me < 0) { sig_hash = fnv (sig_hash, code); return; }
	int n = evn[me];
	if (n < EVCAP) { evlog[me][n].stamp = rt_stamp (); evlog[me][n].code = code; evn[me] = n + 1; }
}

/* ---- distinct signature set ---- */
static uint64_t *hset; static size_t hcap, hcnt;
static uint64_t *hset_nt; static size_t hcap_nt, hcnt_nt;
#define HSET_MAX ((size_t) 1 << 22)     /* per process; beyond it the count stays a lower bound (summary: distinct_capped) */
static int hset_capped;
static int hset_add (uint64_t **set, size_t *cap, size_t *cnt, uint64_t v) {
	if (v == 0) v = 1;
	if (*cnt >= HSET_MAX) { hset_capped = 1; return (0); }
	if (*cnt * 2 + 2 > *cap) {
		size_t ncap = *cap ? *cap * 2 : 1024; uint64_t *n = (uint64_t *) calloc (ncap, 8);
		for (size_t i = 0; i < *cap; i++) if ((*set)[i]) { size_t j = (*set)[i] % ncap; while (n[j]) j = (j + 1) % ncap; n[j] = (*set)[i]; }
		free (*set); *set = n; *cap = ncap;
	}
	size_t j = v % *cap;
	while ((*set)[j]) { if ((*set)[j] == v) return (0); j = (j + 1) % *cap; }
	(*set)[j] = v; (*cnt)++; return (1);
}

/* for input-space scenarios: add a case signature to the distinct non-trivial set directly
   (single-threaded use only) */
void rt_distinct_add (uint64_t h) { hset_add (&hset_nt, &hcap_nt, &hcnt_nt, h); hset_add (&hset, &hcap, &hcnt, h); }

/* ------------------------------------------------------------------------------------ */
/* raw futex for the runtime's own parking */
long __real_syscall (long n, ...);
/* raw sleeps/yields: the sanitizer runtimes intercept nanosleep/usleep/sched_yield even in
   uninstrumented code (gcc 12 libtsan can deadlock between AfterSleep and ReportRace) */
static void raw_sleep_ns (long sec, long ns) { struct timespec ts = { sec, ns }; __real_syscall (SYS_nanosleep, &ts, NULL); }
static void raw_yield (void) { __real_syscall (SYS_sched_yield); }
static void park (int id) {
	while (__atomic_load_n (&T[id].turn, __ATOMIC_ACQUIRE) == 0) {
		__real_syscall (SYS_futex, &T[id].turn, FUTEX_WAIT_PRIVATE, 0, NULL, NULL, 0);
	}
	__atomic_store_n (&T[id].turn, 0, __ATOMIC_RELAXED);
}
static void unpark (int id) {
	__atomic_store_n (&T[id].turn, 1, __ATOMIC_RELEASE);
	__real_syscall (SYS_futex, &T[id].turn, FUTEX_WAKE_PRIVATE, 1, NULL, NULL, 0);
}

/* ------------------------------------------------------------------------------------ */
/* witness / verdicts */
static int dying;
static void json_str (FILE *f, const char *s) {
	fputc ('"', f);
	for (; s && *s; s++) {
		unsigned char c = (unsigned char) *s;
		if (c == '"' || c == '\\') { fputc ('\\', f); fputc (c, f); }
		else if (c < 0x20) fprintf (f, "\\u%04x", c);
		else fputc (c, f);
	}
	fputc ('"', f);
}
static const char *base_name (const char *p) { const char *b = p ? strrchr (p, '/') : NULL; return (b ? b + 1 : (p ? p : "")); }
static int64_t vclock_ns;
static char sched_rle[1 << 16]; static size_t sched_rle_n; static int rle_last = -1; static long rle_cnt;
static size_t put_num (char *b, long v) { char t[24]; int n = 0; size_t k = 0; if (v == 0) t[n++] = '0'; while (v > 0) { t[n++] = (char) ('0' + v % 10); v /= 10; } while (n > 0) b[k++] = t[--n]; return (k); }
static void rle_flush (void) {
	/* no libc calls here: the sanitizer runtimes intercept them even in uninstrumented code */
	if (rle_last >= 0 && sched_rle_n + 48 < sizeof (sched_rle)) {
		char *b = sched_rle + sched_rle_n;
		size_t k = 0;
		if (sched_rle_n) b[k++] = ',';
		b[k++] = '['; k += put_num (b + k, rle_last); b[k++] = ','; k += put_num (b + k, rle_cnt); b[k++] = ']'; b[k] = 0;
		sched_rle_n += k;
	}
}
static void rle_add (int t) { if (t == rle_last) { rle_cnt++; return; } rle_flush (); rle_last = t; rle_cnt = 1; }
static const char *strat_now = "rw"; static int p_switch_ppm, p_fire_ppm, pct_d;
static const char *profile_now = "";

static void write_witness (const char *oracle, const char *signature, const char *detail) {
	FILE *f = witness_path ? fopen (witness_path, "w") : NULL;
	if (!f) f = stderr;
	char sig[256]; size_t k = 0;
	for (const char *s = signature; s && *s && k < sizeof (sig) - 1; s++) {
		char c = *s;
		if ((c >= 'a' && c <= 'z') || (c >= 'A' && c <= 'Z') || (c >= '0' && c <= '9') || c == '_' || c == '+' || c == '-' || c == '.') sig[k++] = c;
		else if (k && sig[k - 1] != '_') sig[k++] = '_';
	}
	sig[k] = 0;
	fprintf (f, "{\"property\":"); json_str (f, rt_scen.property);
	fprintf (f, ",\"oracle\":"); json_str (f, oracle);
	fprintf (f, ",\"key\":\"%s:%s:%s:%s\"", rt_scen.property, oracle, rt_scen.name, sig);
	fprintf (f, ",\"detail\":"); json_str (f, detail);
	fprintf (f, ",\"mode\":\"%s\",\"scenario\":", mode_b ? "B" : "A"); json_str (f, rt_scen.name);
	fprintf (f, ",\"config\":"); json_str (f, config_name);
	fprintf (f, ",\"seed\":%llu,\"start_round\":%llu,\"round\":%llu", (unsigned long long) base_seed, (unsigned long long) start_round, (unsigned long long) cur_round);
	fprintf (f, ",\"strategy\":{\"kind\":\"%s\",\"p_switch_ppm\":%d,\"p_fire_ppm\":%d,\"pct_d\":%d,\"profile\":\"%s\"}", strat_now, p_switch_ppm, p_fire_ppm, pct_d, profile_now);
	fprintf (f, ",\"steps\":%llu,\"switches\":%llu,\"schedule_hash\":\"%016llx\",\"clock_ns\":%lld", (unsigned long long) round_steps, (unsigned long long) round_switches, (unsigned long long) sched_hash, (long long) vclock_ns);
	if (mode_b) { rle_flush (); rle_last = -1; fprintf (f, ",\"schedule_rle\":[%s]", sched_rle); }
	fprintf (f, ",\"threads\":[");
	for (int i = 0; i < NT; i++) {
		fprintf (f, "%s{\"id\":%d,\"state\":\"%s\",\"op\":", i ? "," : "", i,
			 mode_b ? st_names[T[i].state] : (T[i].state == ST_DONE ? "DONE" : (T[i].a_blocked ? (T[i].a_timed ? "BLOCKED_TIMED" : "BLOCKED") : st_names[T[i].state])));
		json_str (f, T[i].op ? T[i].op : "");
		fprintf (f, ",\"at\":"); json_str (f, T[i].at ? T[i].at : "");
		fprintf (f, ",\"timed\":%d,\"sleeps\":%lu,\"api_deadline_ns\":%lld", mode_b ? T[i].timed : T[i].a_timed, T[i].sleeps, (long long) (T[i].op ? T[i].op_deadline_ns : 0));
		if (!mode_b) fprintf (f, ",\"sem_count\":%d", T[i].a_addr ? *T[i].a_addr : -1);
		fprintf (f, "}");
	}
	fprintf (f, "]");
	if (rt_scen.describe) { fprintf (f, ",\"round_description\":"); rt_scen.describe (f); }
	if (rt_scen.dump_state) { fprintf (f, ",\"scenario_state\":"); rt_scen.dump_state (f); }
	fprintf (f, ",\"history\":[");
	{ uint64_t n = notes_idx, lo = n > NOTES ? n - NOTES : 0; for (uint64_t i = lo; i < n; i++) { if (i > lo) fputc (',', f); json_str (f, notes[i % NOTES]); } }
	fprintf (f, "],\"last_events\":[");
	{ uint64_t n = ring_idx, lo = n > RING ? n - RING : 0; if (n - lo > 400) lo = n - 400;
	  for (uint64_t i = lo; i < n; i++) { struct rev *e = &ring[i % RING];
		fprintf (f, "%s\"%llu t%d %s %s:%d @%p %x->%x ok=%d\"", i > lo ? "," : "", (unsigned long long) e->stamp, e->tid,
			 op_names[e->op & 31], base_name (e->file), e->line, e->addr, e->old_v, e->new_v, e->ok); } }
	fprintf (f, "]}\n");
	if (f != stderr) fclose (f);
}

static void die_with (const char *oracle, const char *signature, const char *detail, int code) {
	if (__atomic_exchange_n (&dying, 1, __ATOMIC_ACQ_REL)) { for (;;) pause (); }
	fprintf (stderr, "RT-VIOLATION scenario=%s oracle=%s sig=%s round=%llu seed=%llu mode=%s: %s\n", rt_scen.name, oracle, signature,
		 (unsigned long long) cur_round, (unsigned long long) base_seed, mode_b ? "B" : "A", detail);
	write_witness (oracle, signature, detail);
	fflush (NULL);
	_exit (code);
}
void rt_violation (const char *oracle, const char *signature, const char *fmt, ...) {
	char buf[1024]; va_list ap; va_start (ap, fmt); vsnprintf (buf, sizeof (buf), fmt, ap); va_end (ap);
	die_with (oracle, signature, buf, 10);
	for (;;) { }
}
void rt_fatal (const char *fmt, ...) {
	char buf[1024]; va_list ap; va_start (ap, fmt); vsnprintf (buf, sizeof (buf), fmt, ap); va_end (ap);
	fprintf (stderr, "RT-FATAL scenario=%s round=%llu: %s\n", rt_scen.name, (unsigned long long) cur_round, buf);
	fflush (NULL);
	_exit (2);
}

static void blocked_signature (char *out, size_t n) {
	/* sorted list of the operations of threads that are not finished */
	const char *ops[RT_MAXT]; int k = 0; static char tmp[RT_MAXT][128];
	for (int i = 0; i < NT; i++) if (T[i].state != ST_DONE && T[i].in_round) {
		snprintf (tmp[i], sizeof (tmp[i]), "%s.%s", T[i].op ? T[i].op : "harness", T[i].at ? T[i].at : "");
		ops[k++] = tmp[i];
	}
	for (int i = 0; i < k; i++) for (int j = i + 1; j < k; j++) if (strcmp (ops[i], ops[j]) > 0) { const char *t = ops[i]; ops[i] = ops[j]; ops[j] = t; }
	size_t p = 0; out[0] = 0; const char *prev = NULL;
	for (int i = 0; i < k; i++) { if (prev && strcmp (prev, ops[i]) == 0) continue; p += (size_t) snprintf (out + p, n - p, "%s%s", p ? "+" : "", ops[i]); prev = ops[i]; if (p >= n - 1) break; }
}

/* ------------------------------------------------------------------------------------ */
/* Mode B scheduler */
static uint64_t sched_rng;
static int sched_active;
static long low_prio;
static uint64_t pct_change[4]; static int pct_nchange;
static uint64_t est_steps = 2000;
static int strat_pct;               /* this round */
static int budget_extended;
static int force_fire_next;
static int p_stall_ppm;

static void deadlock (void) {
	char sig[256]; blocked_signature (sig, sizeof (sig));
	char detail[512]; snprintf (detail, sizeof (detail), "no runnable thread and no pending deadline; unfinished threads blocked in: %s", sig);
	die_with ("deadlock", sig, detail, 10);
}

static int pick (int forced_switch) {
	int en[RT_MAXT], n = 0;
	/* C05: a call with a finite deadline and no cancel note may sleep without a timer only while it acquires a lock */
	for (int i = 0; i < NT; i++) if (T[i].state == ST_BLOCKED && !T[i].timed && T[i].op && T[i].op_deadline_strict && vclock_ns > T[i].op_deadline_ns + 1000 &&
					 T[i].at && strcmp (T[i].at, "nsync_mu_lock_slow_") != 0) {
		char sig[200], detail[400];
		snprintf (sig, sizeof (sig), "%s.%s", T[i].op, T[i].at);
		snprintf (detail, sizeof (detail), "thread %d is asleep WITHOUT a timer inside %s (last step in %s) although the call was given the deadline %lld ns and the clock is at %lld ns", i, T[i].op, T[i].at, (long long) T[i].op_deadline_ns, (long long) vclock_ns);
		die_with ("asleep-past-deadline", sig, detail, 10);
	}
	/* natural expiry */
	for (int i = 0; i < NT; i++) if (T[i].state == ST_BLOCKED && T[i].timed && T[i].deadline_ns <= vclock_ns) { T[i].state = ST_RUN; T[i].timedout = 1; }
	for (int i = 0; i < NT; i++) if (T[i].state == ST_RUN) en[n++] = i;
	int best = -1;
	for (int i = 0; i < NT; i++) if (T[i].state == ST_BLOCKED && T[i].timed && (best < 0 || T[i].deadline_ns < T[best].deadline_ns)) best = i;
	/* a deadline more than an hour of virtual time away is only reached when nothing else,
	   not even a thread waiting for quiescence, can run */
	int far = best >= 0 && T[best].deadline_ns - vclock_ns > 3600ll * 1000000000ll;
	if (best >= 0 && far && n == 0) { for (int i = 0; i < NT; i++) if (T[i].state == ST_WAITQ) { T[i].state = ST_RUN; return (i); } }
	if (n == 0 && best >= 0 && rt_scen.idle_check) rt_scen.idle_check ();
	if (best >= 0 && (n == 0 || (!far && (force_fire_next || xs (&sched_rng) % 1000000u < (uint64_t) p_fire_ppm)))) {
		force_fire_next = 0;
		if (vclock_ns < T[best].deadline_ns) vclock_ns = T[best].deadline_ns;
		T[best].state = ST_RUN; T[best].timedout = 1; en[n++] = best;
		if (ring_on) ring_put (EV_TIMEOUT, NULL, best, NULL);
	}
	if (n == 0) {
		for (int i = 0; i < NT; i++) if (T[i].state == ST_WAITQ) { T[i].state = ST_RUN; return (i); }
		return (-1);
	}
	if (rt_scen.adversary) { int a = rt_scen.adversary (me, forced_switch, en, n); if (a >= 0) { for (int i = 0; i < n; i++) if (en[i] == a) return (a); } }
	if (strat_pct) {
		int b = en[0];
		for (int i = 1; i < n; i++) if (T[en[i]].prio > T[b].prio) b = en[i];
		return (b);
	}
	if (!forced_switch && me >= 0 && T[me].state == ST_RUN && xs (&sched_rng) % 1000000u >= (uint64_t) p_switch_ppm) return (me);
	if (forced_switch && n > 1 && me >= 0 && T[me].state == ST_RUN) { int c; do { c = en[xs (&sched_rng) % (unsigned) n]; } while (c == me); return (c); }
	return (en[xs (&sched_rng) % (unsigned) n]);
}

static void handoff (int forced_switch) {
	int nxt = pick (forced_switch);
	if (nxt < 0) {
		int alldone = 1;
		for (int i = 0; i < NT; i++) if (T[i].state != ST_DONE) alldone = 0;
		if (alldone) return;
		deadlock ();
	}
	sched_hash = fnv (sched_hash, (uint64_t) (nxt + 1));
	rle_add (nxt);
	if (nxt != me) {
		int self = me;
		round_switches++;
		unpark (nxt);
		if (self >= 0 && T[self].state != ST_DONE) park (self);
	}
}

static void sched_point (int forced_switch) {
	if (!sched_active || me < 0) return;
	round_steps++; vclock_ns += 50;
	__atomic_store_n (&g_stamp, g_stamp + 1, __ATOMIC_RELAXED);
	T[me].op_steps++;
	if (strat_pct) {
		for (int i = 0; i < pct_nchange; i++) if (pct_change[i] == round_steps) T[me].prio = --low_prio;
		if (forced_switch) T[me].prio = --low_prio;
	}
	if (round_steps > step_budget) {
		if (strat_pct && !budget_extended) { budget_extended = 1; strat_pct = 0; strat_now = "pct->rw"; p_switch_ppm = 300000; step_budget += 2000000; }
		else {
			char sig[256]; blocked_signature (sig, sizeof (sig));
			char detail[400]; snprintf (detail, sizeof (detail), "step budget exhausted (%llu steps) under the fair random walk; unfinished: %s", (unsigned long long) round_steps, sig);
			die_with ("no-progress", sig, detail, 10);
		}
	}
	handoff (forced_switch);
}

static unsigned long long stalls_total;
static void sched_reset (int nthreads, uint64_t seed) {
	NT = nthreads; round_steps = 0; round_switches = 0; sched_hash = sig_hash; me = -1;
	sched_rng = mix64 (seed ^ 0x5ced5ced) | 1;
	sched_rle_n = 0; sched_rle[0] = 0; rle_last = -1; rle_cnt = 0; budget_extended = 0; force_fire_next = 0;
	step_budget = (uint64_t) rt_param ("budget", 2000000);
	static const int sw[3] = { 50000, 200000, 500000 };
	p_switch_ppm = sw[xs (&sched_rng) % 3];
	{ static const int fp[4] = { 20000, 20000, 2000, 150000 };     /* timers fire early rarely / sometimes / eagerly, per round */
	  p_fire_ppm = (int) rt_param ("fire_ppm", fp[xs (&sched_rng) % 4]); }
	/* store stalls: in half of the rounds, a thread about to execute a plain atomic STORE (the operations that can clobber what another
	   thread's CAS wrote since this thread's last load) is held back, with probability 1/4, while others take 1..4 turns */
	p_stall_ppm = (rt_scen.adversary != NULL || !rt_param ("stall", 1)) ? 0 : ((xs (&sched_rng) & 1) ? 250000 : 0);
	strat_pct = 0;
	if (strcmp (strategy, "pct") == 0) strat_pct = 1;
	else if (strcmp (strategy, "mix") == 0) strat_pct = (xs (&sched_rng) % 4 == 0);
	strat_now = strat_pct ? "pct" : "rw";
	low_prio = 0; pct_nchange = 0; pct_d = 0;
	if (strat_pct) {
		pct_d = 1 + (int) (xs (&sched_rng) % 3);
		for (int i = 0; i < nthreads; i++) T[i].prio = 1000 + (long) (xs (&sched_rng) % 1000000);
		pct_nchange = pct_d;
		for (int i = 0; i < pct_d; i++) pct_change[i] = 1 + xs (&sched_rng) % (est_steps ? est_steps : 1);
	}
}

void rt_force_fire (void) { force_fire_next = 1; }

/* ------------------------------------------------------------------------------------ */
/* Mode A engine */
static int prof_yield_ppm, prof_spin_ppm, prof_sleep_ppm;
static uint64_t a_progress;          /* bumped by round driver; watchdog */

static void a_perturb (int site) {
	uint64_t r = xs (&T[me].rng) % 1000000u;
	if (site >= 0 && site == focus_site) { raw_sleep_ns (0, (long) (20000 + xs (&T[me].rng) % 180000)); return; }
	if (r < (uint64_t) prof_yield_ppm) raw_yield ();
	else if (r < (uint64_t) (prof_yield_ppm + prof_spin_ppm)) { unsigned n = (unsigned) (xs (&T[me].rng) % 2000); for (volatile unsigned i = 0; i < n; i++) { } }
	else if (r < (uint64_t) (prof_yield_ppm + prof_spin_ppm + prof_sleep_ppm)) { raw_sleep_ns (0, (long) (xs (&T[me].rng) % 200000)); }
}

/* snapshot for quiescence: returns 1 if every participant other than `self` is done, or
   waiting for quiescence, or blocked without deadline on a futex word that still holds the
   value it went to sleep on, and nothing moved while we looked. */
static int binsem_on;
static int bs_settled (int i);
static int a_quiescent_snapshot (int self, int *n_blocked, int *n_waitq) {
	uint64_t c0 = __atomic_load_n (&g_stamp, __ATOMIC_ACQUIRE);
	int nb = 0, nq = 0;
	for (int i = 0; i < NT; i++) {
		if (i == self || !T[i].in_round) continue;
		int st = __atomic_load_n (&T[i].state, __ATOMIC_ACQUIRE);
		if (st == ST_DONE) continue;
		if (st == ST_WAITQ) { nq++; continue; }
		if (!__atomic_load_n (&T[i].a_blocked, __ATOMIC_ACQUIRE)) return (0);
		if (__atomic_load_n (&T[i].a_timed, __ATOMIC_ACQUIRE)) return (0);
		if (binsem_on && !bs_settled (i)) return (0);
		int *a = __atomic_load_n (&T[i].a_addr, __ATOMIC_ACQUIRE);
		if (a == NULL || __atomic_load_n (a, __ATOMIC_ACQUIRE) != T[i].wval) return (0);
		nb++;
	}
	uint64_t c1 = __atomic_load_n (&g_stamp, __ATOMIC_ACQUIRE);
	if (c0 != c1) return (0);
	if (n_blocked) *n_blocked = nb;
	if (n_waitq) *n_waitq = nq;
	return (1);
}

static volatile int round_running;
static void *a_monitor (void *arg) {
	(void) arg;
	uint64_t last_progress = 0; time_t last_change = time (NULL);
	for (;;) {
		raw_sleep_ns (0, 20 * 1000 * 1000);
		if (a_progress != last_progress) { last_progress = a_progress; last_change = time (NULL); }
		else if (time (NULL) - last_change > watchdog_s) {
			fprintf (stderr, "RT-INCONCLUSIVE scenario=%s round=%llu: watchdog (%d s without a completed round)\n", rt_scen.name, (unsigned long long) cur_round, watchdog_s);
			write_witness ("watchdog", "inconclusive", "no round completed within the watchdog period and the system is not quiescent");
			fflush (NULL); _exit (3);
		}
		if (mode_b || !round_running) continue;
		int nb = 0, nq = 0, stable = 0; uint64_t c = 0;
		for (int k = 0; k < 3; k++) {
			if (!round_running || !a_quiescent_snapshot (-1, &nb, &nq) || nq > 0 || nb == 0) break;
			uint64_t cc = __atomic_load_n (&g_stamp, __ATOMIC_ACQUIRE);
			if (k > 0 && cc != c) break;
			c = cc; stable++;
			if (k < 2) { raw_sleep_ns (0, 50 * 1000 * 1000); }
		}
		if (stable == 3 && round_running) {
			char sig[256]; blocked_signature (sig, sizeof (sig));
			char detail[512]; snprintf (detail, sizeof (detail), "every unfinished thread is asleep without a deadline on a semaphore whose count is 0, unchanged over 3 samples 50 ms apart; blocked in: %s", sig);
			die_with ("deadlock", sig, detail, 10);
		}
	}
	return (NULL);
}

/* ------------------------------------------------------------------------------------ */
/* shim hooks */
void nsync_verif_step_ (const char *file, int line, const char *func, int op, const volatile void *addr) {
	if (me < 0) return;
	if (strstr (file, "semaphore") == NULL) { T[me].at = func; if (op <= 4 && func[9] == 'l' && strcmp (func, "nsync_mu_lock_slow_") == 0) T[me].lock_addr = addr; }
	int s = site_of (file, line);
	__atomic_fetch_add (&sites[s].hits, 1, __ATOMIC_RELAXED);
	if (mode_b) {
		if (op >= NSV_STORE && p_stall_ppm && sched_active && xs (&sched_rng) % 1000000u < (uint64_t) p_stall_ppm) {
			int k = 1 + (int) (xs (&sched_rng) % 4);
			stalls_total++;
			while (k-- > 0) sched_point (1);
		}
		sched_point (0);
		if (ring_on) T[me].last_ring = ring_put (op, file, line, (const void *) addr);
		if (trace) fprintf (stderr, "T%d %s %s:%d @%p\n", me, op_names[op], base_name (file), line, (const void *) addr);
	} else {
		__atomic_fetch_add (&g_stamp, 1, __ATOMIC_RELAXED);
		__atomic_fetch_add (&total_steps, 1, __ATOMIC_RELAXED);
		T[me].op_steps++;
		if (ring_on) T[me].last_ring = ring_put (op, file, line, (const void *) addr);
		a_perturb (s);
	}
}
void nsync_verif_done_ (int op, const volatile void *addr, uint32_t old_v, uint32_t new_v, int ok) {
	if (me < 0) return;
	if (ring_on) { struct rev *e = &ring[T[me].last_ring]; if (e->tid == me) { e->old_v = old_v; e->new_v = new_v; e->ok = ok; } }
	int on_watched = 0;
	for (int i = 0; i < 8; i++) if (watched[i].addr == addr && addr != NULL) {
		if (ok) { wset_add (wvals, &wvals_n, new_v); if (op <= 4) wset_add (wtrans, &wtrans_n, ((uint64_t) old_v << 32) | new_v); }
		watched[i].cb (i, op, old_v, new_v, ok);
		on_watched = 1;
	}
	/* in the rounds that have store stalls: a thread that has just CHANGED a watched word (a successful CAS) and is still inside its call is,
	   one time in eight, held back while others take 1..3 turns: transient states of multi-step updates get observed by the others */
	if (mode_b && sched_active && on_watched && ok && op <= 4 && old_v != new_v && p_stall_ppm && xs (&sched_rng) % 8u == 0) {
		int k = 1 + (int) (xs (&sched_rng) % 3);
		while (k-- > 0) sched_point (1);
	}
}

void rt_point (const char *tag) {
	if (me < 0) return;
	if (mode_b) { sched_point (0); if (ring_on) ring_put (EV_HARNESS, tag, 0, NULL); }
	else { __atomic_fetch_add (&g_stamp, 1, __ATOMIC_RELAXED); a_perturb (-1); }
}
void rt_sleep_us (unsigned us) {
	if (me < 0) return;
	if (mode_b) { vclock_ns += (int64_t) us * 1000; sched_point (0); }
	else { raw_sleep_ns ((long) (us / 1000000), (long) (us % 1000000) * 1000); }
}
void rt_op_deadline (int64_t d) { if (me >= 0) T[me].op_deadline_ns = d; }
void rt_op_deadline_strict (int64_t d) { if (me >= 0) { T[me].op_deadline_ns = d; T[me].op_deadline_strict = (d > 0 && d < INT64_MAX / 2); } }
void rt_op_begin (const char *op) { if (me >= 0) { T[me].op = op; T[me].at = NULL; T[me].op_deadline_ns = 0; T[me].op_deadline_strict = 0; T[me].free_yields = 0; T[me].op_sleeps = 0; T[me].op_steps = 0; } }
void rt_op_end (void) { if (me >= 0) T[me].op = NULL; }
unsigned rt_op_sleeps (void) { return (me >= 0 ? T[me].op_sleeps : 0); }
unsigned rt_op_steps (void) { return (me >= 0 ? T[me].op_steps : 0); }
unsigned long rt_thread_sleeps (int tid) { return (T[tid].sleeps); }

void rt_wait_quiescent (void) {
	if (me < 0) return;
	if (mode_b) { T[me].state = ST_WAITQ; handoff (0); return; }
	__atomic_store_n (&T[me].state, ST_WAITQ, __ATOMIC_RELEASE);
	for (;;) {
		int nb, nq;
		if (a_quiescent_snapshot (me, &nb, &nq) && nq == 0) {
			/* confirm once more after a short pause */
			raw_sleep_ns (0, 200 * 1000);
			uint64_t c = __atomic_load_n (&g_stamp, __ATOMIC_ACQUIRE);
			if (a_quiescent_snapshot (me, &nb, &nq) && nq == 0 && c == __atomic_load_n (&g_stamp, __ATOMIC_ACQUIRE)) break;
		}
		raw_sleep_ns (0, 100 * 1000);
	}
	__atomic_store_n (&T[me].state, ST_RUN, __ATOMIC_RELEASE);
}
int rt_thread_blocked (int tid) { return (mode_b ? T[tid].state == ST_BLOCKED : (T[tid].state != ST_DONE && T[tid].a_blocked)); }
int rt_thread_in_wait (int tid) { return (mode_b ? T[tid].state == ST_BLOCKED : (T[tid].state != ST_DONE && __atomic_load_n (&T[tid].a_blocked, __ATOMIC_ACQUIRE))); }
int rt_thread_done (int tid) { return (T[tid].state == ST_DONE); }
const char *rt_thread_op (int tid) { return (T[tid].op ? T[tid].op : ""); }
const char *rt_thread_at (int tid) { return (T[tid].at ? T[tid].at : ""); }
const volatile void *rt_thread_lock_addr (int tid) { return (T[tid].lock_addr); }
int rt_thread_timed (int tid) { return (T[tid].timed); }

/* ------------------------------------------------------------------------------------ */
/* wrappers: futex */
static int take_fault (int is_timed) {
	int k = T[me].futex_waits++;
	int e = 0;
	if (k < T[me].n_fault) e = T[me].fault_plan[k];
	else if (fault_ppm && xs (&T[me].rng) % 1000000u < fault_ppm) e = (xs (&T[me].rng) & 1) ? EINTR : EAGAIN;
	if (e == ETIMEDOUT && !is_timed) e = EINTR;
	if (e) { __atomic_fetch_add (&faults_fired, 1, __ATOMIC_RELAXED); if (ring_on) ring_put (EV_FAULT, NULL, e, NULL); }
	return (e);
}

long __wrap_syscall (long n, long a, long b, long c, long d, long e, long f) {
	if (n != SYS_futex || me < 0) return (__real_syscall (n, a, b, c, d, e, f));
	int *addr = (int *) a; int cmd = (int) b & FUTEX_CMD_MASK;
	const struct timespec *ts = (const struct timespec *) d;
	if (!mode_b) {
		if (cmd == FUTEX_WAIT || cmd == FUTEX_WAIT_BITSET) {
			int fe = take_fault (ts != NULL);
			if (fe == RT_FAULT_SPURIOUS_WAKE) return (0);     /* FUTEX_WAIT may return 0 spuriously (a stale FUTEX_WAKE of an already consumed post) */
			if (fe) { errno = fe; return (-1); }
			T[me].wval = (int) c;
			__atomic_store_n (&T[me].a_addr, addr, __ATOMIC_RELEASE);
			__atomic_store_n (&T[me].a_timed, ts != NULL, __ATOMIC_RELEASE);
			__atomic_store_n (&T[me].a_blocked, 1, __ATOMIC_RELEASE);
			__atomic_fetch_add (&g_stamp, 1, __ATOMIC_ACQ_REL);
			long r = __real_syscall (n, a, b, c, d, e, f);
			int se = errno;
			__atomic_fetch_add (&g_stamp, 1, __ATOMIC_ACQ_REL);
			__atomic_store_n (&T[me].a_blocked, 0, __ATOMIC_RELEASE);
			if (!(r == -1 && se == EAGAIN)) { T[me].sleeps++; T[me].op_sleeps++; }
			if (T[me].wake_delay_us) { raw_sleep_ns (0, (long) T[me].wake_delay_us * 1000); }
			errno = se;
			return (r);
		}
		__atomic_fetch_add (&g_stamp, 1, __ATOMIC_ACQ_REL);
		return (__real_syscall (n, a, b, c, d, e, f));
	}
	if (!sched_active) return (__real_syscall (n, a, b, c, d, e, f));
	if (cmd == FUTEX_WAIT || cmd == FUTEX_WAIT_BITSET) {
		sched_point (0);
		if (ring_on) ring_put (EV_FWAIT, NULL, 0, addr);
		if (__atomic_load_n (addr, __ATOMIC_RELAXED) != (int) c) { errno = EAGAIN; return (-1); }
		{ int fe = take_fault (ts != NULL); if (fe == RT_FAULT_SPURIOUS_WAKE) return (0); if (fe) { errno = fe; return (-1); } }
		T[me].waddr = addr; T[me].timed = 0; T[me].timedout = 0;
		if (ts) {
			if (ts->tv_sec < 0 || ts->tv_nsec < 0 || ts->tv_nsec >= 1000000000l) { errno = EINVAL; return (-1); }
			int64_t dl;
			if (ts->tv_sec > (time_t) (INT64_MAX / 2000000000ll)) dl = INT64_MAX;
			else dl = (int64_t) ts->tv_sec * 1000000000ll + ts->tv_nsec;
			if (cmd == FUTEX_WAIT) dl = (dl > INT64_MAX - vclock_ns) ? INT64_MAX : dl + vclock_ns;   /* relative */
			if (dl <= vclock_ns) { errno = ETIMEDOUT; return (-1); }
			T[me].timed = 1; T[me].deadline_ns = dl;
		}
		if (trace) fprintf (stderr, "T%d FUTEX_WAIT blocks timed=%d\n", me, T[me].timed);
		T[me].state = ST_BLOCKED; T[me].sleeps++; T[me].op_sleeps++;
		if (ring_on) ring_put (EV_BLOCK, NULL, T[me].timed, addr);
		handoff (0);
		if (ring_on) ring_put (EV_RESUME, NULL, T[me].timedout, addr);
		if (trace) fprintf (stderr, "T%d FUTEX_WAIT resumes timedout=%d\n", me, T[me].timedout);
		T[me].waddr = NULL;
		if (T[me].timedout) { errno = ETIMEDOUT; return (-1); }
		return (0);
	}
	if (cmd == FUTEX_WAKE) {
		sched_point (0);
		if (ring_on) ring_put (EV_FWAKE, NULL, 0, addr);
		int cnt = 0, cand[RT_MAXT], nc = 0;
		for (int i = 0; i < NT; i++) if (T[i].state == ST_BLOCKED && T[i].waddr == addr) cand[nc++] = i;
		while (nc > 0 && cnt < (int) c) {
			int k = (int) (xs (&sched_rng) % (unsigned) nc); int i = cand[k];
			T[i].state = ST_RUN; T[i].timed = 0; T[i].timedout = 0; cnt++;
			cand[k] = cand[--nc];
		}
		return (cnt);
	}
	return (__real_syscall (n, a, b, c, d, e, f));
}

/* wrappers: clock, yield, panic -- C names and C++ (namespace nsync) names */
struct timespec __real_nsync_time_now (void) __attribute__ ((weak));
struct timespec real_cpp_time_now (void) __asm__ ("__real__ZN5nsync14nsync_time_nowEv") __attribute__ ((weak));
static struct timespec vnow (void) { struct timespec t; t.tv_sec = (time_t) (vclock_ns / 1000000000ll); t.tv_nsec = (long) (vclock_ns % 1000000000ll); return (t); }
static struct timespec real_now (void) {
	if (__real_nsync_time_now) return (__real_nsync_time_now ());
	if (real_cpp_time_now) return (real_cpp_time_now ());
	struct timespec ts; clock_gettime (CLOCK_REALTIME, &ts); return (ts);
}
struct timespec __wrap_nsync_time_now (void) { return (mode_b ? vnow () : real_now ()); }
struct timespec wrap_cpp_time_now (void) __asm__ ("__wrap__ZN5nsync14nsync_time_nowEv");
struct timespec wrap_cpp_time_now (void) { return (mode_b ? vnow () : real_now ()); }
struct timespec rt_now (void) { return (mode_b ? vnow () : real_now ()); }
int64_t rt_ts_ns (struct timespec t) {   /* saturating */
	if ((int64_t) t.tv_sec > INT64_MAX / 1000000000ll - 1) return (INT64_MAX);
	if ((int64_t) t.tv_sec < INT64_MIN / 1000000000ll + 1) return (INT64_MIN);
	return ((int64_t) t.tv_sec * 1000000000ll + t.tv_nsec);
}
int64_t rt_now_ns (void) { return (rt_ts_ns (rt_now ())); }
struct timespec rt_deadline_in (int64_t ns) { int64_t v = rt_now_ns () + ns; struct timespec t; t.tv_sec = (time_t) (v / 1000000000ll); t.tv_nsec = (long) (v % 1000000000ll); if (t.tv_nsec < 0) { t.tv_nsec += 1000000000l; t.tv_sec--; } return (t); }

void __real_nsync_yield_ (void) __attribute__ ((weak));
void real_cpp_yield (void) __asm__ ("__real__ZN5nsync12nsync_yield_Ev") __attribute__ ((weak));
static void do_yield (void) {
	if (me >= 0 && mode_b && sched_active && T[me].op && T[me].op_deadline_strict && vclock_ns > T[me].op_deadline_ns + 1000 && watched[0].addr != NULL) {
		/* C05 "needs no further wake-up": past its deadline a call may spin only while the mutex (or its queue spinlock) is
		   busy, or for the few steps a waker needs to finish with its waiter record.  Yielding again and again while the
		   mutex word shows no holder and no spinlock means the call is waiting for somebody else's wake-up. */
		uint32_t w = __atomic_load_n ((const volatile uint32_t *) watched[0].addr, __ATOMIC_RELAXED);
		if ((w & (1u | 2u | ~(uint32_t) 0xff)) == 0) {
			if (++T[me].free_yields > 400) {
				char sig[200], detail[400];
				snprintf (sig, sizeof (sig), "%s.%s", T[me].op, T[me].at ? T[me].at : "");
				snprintf (detail, sizeof (detail), "thread %d has yielded %u times inside %s (last step in %s) past its deadline %lld ns (clock %lld ns) while the mutex word (%#x) showed no holder: the call is waiting for a wake-up it should not need", me, T[me].free_yields, T[me].op, T[me].at ? T[me].at : "?", (long long) T[me].op_deadline_ns, (long long) vclock_ns, w);
				die_with ("spinning-past-deadline", sig, detail, 10);
			}
		}
	}
	if (me >= 0 && mode_b && sched_active) { if (ring_on) ring_put (EV_YIELD, NULL, 0, NULL); sched_point (1); return; }
	if (me >= 0) __atomic_fetch_add (&g_stamp, 1, __ATOMIC_RELAXED);
	raw_yield ();
}
void __wrap_nsync_yield_ (void) { do_yield (); }
void rt_yield (void) { do_yield (); }
void wrap_cpp_yield (void) __asm__ ("__wrap__ZN5nsync12nsync_yield_Ev");
void wrap_cpp_yield (void) { do_yield (); }

static void do_panic (const char *s) {
	char sig[128]; snprintf (sig, sizeof (sig), "%s", s ? s : "");
	die_with ("panic", sig, s ? s : "nsync_panic_", 10);
}
void __wrap_nsync_panic_ (const char *s) { do_panic (s); }
void wrap_cpp_panic (const char *s) __asm__ ("__wrap__ZN5nsync12nsync_panic_EPKc");
void wrap_cpp_panic (const char *s) { do_panic (s); }

/* wrappers: binary semaphore flavour (platform/posix/src/nsync_semaphore_mutex.c); the
   futex flavour is tracked at the system call instead.  Only active when the program
   was started with --param binsem=1. */
static int binsem;
void __real_nsync_mu_semaphore_p (void *s) __attribute__ ((weak));
void __real_nsync_mu_semaphore_v (void *s) __attribute__ ((weak));
int __real_nsync_mu_semaphore_p_with_deadline (void *s, struct timespec d) __attribute__ ((weak));
struct binsem_layout { pthread_mutex_t mu; pthread_cond_t cv; int i; };
/* The binary semaphore consumes a post INSIDE the real P, before the wrapper can clear a_blocked, so "blocked on a count of 0"
   alone does not mean asleep (a woken thread preempted right there looked asleep to the Mode A quiescence detector: a false
   lost-wakeup under heavy load).  Posts are therefore counted per semaphore (started / done).  A P starts its bookkeeping only
   when no post is in progress on its semaphore, and remembers how many had started; the thread counts as asleep only if no
   post has STARTED on its semaphore since then and the count is 0 (posts that finished earlier were either consumed by an
   earlier P or have left the count at 1, which the entry test sees).  (A thread uses more than one semaphore: nsync_mu_lock inside a cancellable
   wait takes a second waiter from the pool, and pool waiters move between threads -- hence per semaphore, not per thread.)  */
#define BS_N 1024
static struct { void *key; unsigned vstart, vdone; } bs[BS_N];
static int bs_slot (void *a) {
	size_t h = (((uintptr_t) a) >> 4) % BS_N;
	for (int n = 0; n < BS_N; n++, h = (h + 1) % BS_N) {
		void *k = __atomic_load_n (&bs[h].key, __ATOMIC_ACQUIRE);
		if (k == a) return ((int) h);
		if (k == NULL) { void *e = NULL; if (__atomic_compare_exchange_n (&bs[h].key, &e, a, 0, __ATOMIC_ACQ_REL, __ATOMIC_ACQUIRE) || e == a) return ((int) h); }
	}
	rt_fatal ("binary-semaphore table full");
	return (0);
}
static int bs_settled (int i) {
	return (__atomic_load_n (&bs[T[i].a_slot].vstart, __ATOMIC_SEQ_CST) == T[i].a_vgen);
}
static void bs_enter (void *s, int timed) {
	int *a = &((struct binsem_layout *) s)->i;
	int sl = bs_slot (a);
	unsigned s0;
	for (;;) { s0 = __atomic_load_n (&bs[sl].vstart, __ATOMIC_SEQ_CST); if (__atomic_load_n (&bs[sl].vdone, __ATOMIC_SEQ_CST) == s0) break; raw_yield (); }
	T[me].wval = 0;
	T[me].a_slot = sl;
	T[me].a_vgen = s0;
	__atomic_store_n (&T[me].a_addr, a, __ATOMIC_RELEASE);
	__atomic_store_n (&T[me].a_timed, timed, __ATOMIC_RELEASE);
	__atomic_store_n (&T[me].a_blocked, 1, __ATOMIC_SEQ_CST);
	__atomic_fetch_add (&g_stamp, 1, __ATOMIC_ACQ_REL);
	/* a post that finished earlier and was not consumed has left the count at 1 (only this thread consumes it): not a sleep */
	if (__atomic_load_n (a, __ATOMIC_SEQ_CST) != 0) __atomic_store_n (&T[me].a_blocked, 0, __ATOMIC_RELEASE);
}
static void bs_leave (void) {
	__atomic_fetch_add (&g_stamp, 1, __ATOMIC_ACQ_REL);
	__atomic_store_n (&T[me].a_blocked, 0, __ATOMIC_RELEASE);
	T[me].sleeps++; T[me].op_sleeps++;
}
void __wrap_nsync_mu_semaphore_p (void *s) {
	if (me < 0 || !binsem) { __real_nsync_mu_semaphore_p (s); return; }
	bs_enter (s, 0);
	__real_nsync_mu_semaphore_p (s);
	bs_leave ();
}
int __wrap_nsync_mu_semaphore_p_with_deadline (void *s, struct timespec d) {
	if (me < 0 || !binsem) return (__real_nsync_mu_semaphore_p_with_deadline (s, d));
	bs_enter (s, !((int64_t) d.tv_sec > INT64_MAX / 2) /* nsync_time_no_deadline is untimed */);
	int r = __real_nsync_mu_semaphore_p_with_deadline (s, d);
	bs_leave ();
	return (r);
}
void __wrap_nsync_mu_semaphore_v (void *s) {
	if (binsem && !mode_b) {
		int sl = bs_slot (&((struct binsem_layout *) s)->i);
		__atomic_fetch_add (&bs[sl].vstart, 1, __ATOMIC_SEQ_CST);
		__atomic_fetch_add (&g_stamp, 1, __ATOMIC_ACQ_REL);
		__real_nsync_mu_semaphore_v (s);
		__atomic_fetch_add (&bs[sl].vdone, 1, __ATOMIC_SEQ_CST);
		__atomic_fetch_add (&g_stamp, 1, __ATOMIC_ACQ_REL);
		return;
	}
	__real_nsync_mu_semaphore_v (s);
}

/* wrappers: malloc (linked with --wrap=malloc only by the checks that need it) */
void *__real_malloc (size_t n) __attribute__ ((weak));
static long mf_nth = -1, mf_seen, mf_other, mf_failed; static const void *mf_lo[4], *mf_hi[4]; static int mf_nr;
void rt_malloc_ranges_clear (void) { mf_nr = 0; }
void rt_malloc_range_add (const void *lo, const void *hi) { if (mf_nr < 4) { mf_lo[mf_nr] = lo; mf_hi[mf_nr] = hi; mf_nr++; } }
void rt_malloc_fail_nth (long n) { mf_seen = 0; mf_other = 0; mf_failed = 0; __atomic_store_n (&mf_nth, n, __ATOMIC_RELEASE); }
long rt_malloc_seen (void) { return (__atomic_load_n (&mf_seen, __ATOMIC_RELAXED)); }
long rt_malloc_other (void) { return (__atomic_load_n (&mf_other, __ATOMIC_RELAXED)); }
long rt_malloc_failed (void) { return (__atomic_load_n (&mf_failed, __ATOMIC_RELAXED)); }
/* Which allocations are eligible to fail.  Range mode: those whose caller lies inside one of the registered function extents.
   Scope mode (rt_malloc_scope_mode): those made by a thread while it is inside a harness-declared scope (rt_malloc_scope), wherever
   in the library they come from -- robust against the constructor being split into helpers -- EXCEPT callers inside the registered
   extents (the waiter pool behind nsync_mu_lock, which the statement does not cover).  */
static int mf_scope_mode; static __thread int mf_scope;
void rt_malloc_scope_mode (int on) { mf_scope_mode = on; }
void rt_malloc_scope (int delta) { mf_scope += delta; }
static int mf_consider (const void *ra) {
	int in = 0;
	if (!mf_nr && !mf_scope_mode) return (1);
	for (int i = 0; i < mf_nr; i++) if (ra >= mf_lo[i] && ra < mf_hi[i]) in = 1;
	if (mf_scope_mode) in = (mf_scope > 0 && !in);
	if (in) {
		long k = __atomic_fetch_add (&mf_seen, 1, __ATOMIC_RELAXED);
		if (k == __atomic_load_n (&mf_nth, __ATOMIC_ACQUIRE)) { __atomic_fetch_add (&mf_failed, 1, __ATOMIC_RELAXED); errno = ENOMEM; return (0); }
	} else __atomic_fetch_add (&mf_other, 1, __ATOMIC_RELAXED);
	return (1);
}
void *__wrap_malloc (size_t n) {
	if (!mf_consider (__builtin_return_address (0))) return (NULL);
	return (__real_malloc (n));
}

void *__real_calloc (size_t n, size_t m) __attribute__ ((weak));
void *__wrap_calloc (size_t n, size_t m) {   /* an optimizer may fuse the constructors' malloc+memset into calloc */
	if (!mf_consider (__builtin_return_address (0))) return (NULL);
	return (__real_calloc (n, m));
}

/* ------------------------------------------------------------------------------------ */
/* crashes and sanitizer deaths */
void __sanitizer_set_death_callback (void (*cb) (void)) __attribute__ ((weak));
/* Called by the sanitizer runtime while it is dying, possibly holding its internal locks:
   no libc (every libc entry point is intercepted), only raw system calls. */
static char dw[2048]; static size_t dwn;
static void dw_s (const char *s) { while (s && *s && dwn + 2 < sizeof (dw)) { char c = *s++; if (c == '"' || c == '\\' || (unsigned char) c < 0x20) c = '_'; dw[dwn++] = c; } }
static void dw_n (uint64_t v) { char t[24]; int n = 0; if (v == 0) t[n++] = '0'; while (v > 0) { t[n++] = (char) ('0' + v % 10); v /= 10; } while (n > 0 && dwn + 2 < sizeof (dw)) dw[dwn++] = t[--n]; }
static void on_sanitizer_death (void) {
	if (__atomic_exchange_n (&dying, 1, __ATOMIC_ACQ_REL)) return;
	const char *op = (me >= 0 && T[me].op) ? T[me].op : "harness";
	dwn = 0;
	dw_s ("{"); dwn--; dw[dwn++] = '{';
	dw[dwn++] = '"'; dw_s ("property"); dw[dwn++] = '"'; dw[dwn++] = ':'; dw[dwn++] = '"'; dw_s (rt_scen.property); dw[dwn++] = '"';
	dw[dwn++] = ','; dw[dwn++] = '"'; dw_s ("oracle"); dw[dwn++] = '"'; dw[dwn++] = ':'; dw[dwn++] = '"'; dw_s ("sanitizer"); dw[dwn++] = '"';
	dw[dwn++] = ','; dw[dwn++] = '"'; dw_s ("key"); dw[dwn++] = '"'; dw[dwn++] = ':'; dw[dwn++] = '"'; dw_s (rt_scen.property); dw_s (":sanitizer:"); dw_s (rt_scen.name); dw_s (":"); dw_s (op); dw[dwn++] = '"';
	dw[dwn++] = ','; dw[dwn++] = '"'; dw_s ("detail"); dw[dwn++] = '"'; dw[dwn++] = ':'; dw[dwn++] = '"'; dw_s ("a sanitizer report terminated the process during "); dw_s (op); dw[dwn++] = '"';
	dw[dwn++] = ','; dw[dwn++] = '"'; dw_s ("mode"); dw[dwn++] = '"'; dw[dwn++] = ':'; dw[dwn++] = '"'; dw_s (mode_b ? "B" : "A"); dw[dwn++] = '"';
	dw[dwn++] = ','; dw[dwn++] = '"'; dw_s ("scenario"); dw[dwn++] = '"'; dw[dwn++] = ':'; dw[dwn++] = '"'; dw_s (rt_scen.name); dw[dwn++] = '"';
	dw[dwn++] = ','; dw[dwn++] = '"'; dw_s ("config"); dw[dwn++] = '"'; dw[dwn++] = ':'; dw[dwn++] = '"'; dw_s (config_name); dw[dwn++] = '"';
	dw[dwn++] = ','; dw[dwn++] = '"'; dw_s ("seed"); dw[dwn++] = '"'; dw[dwn++] = ':'; dw_n (base_seed);
	dw[dwn++] = ','; dw[dwn++] = '"'; dw_s ("start_round"); dw[dwn++] = '"'; dw[dwn++] = ':'; dw_n (start_round);
	dw[dwn++] = ','; dw[dwn++] = '"'; dw_s ("round"); dw[dwn++] = '"'; dw[dwn++] = ':'; dw_n (cur_round);
	dw[dwn++] = ','; dw[dwn++] = '"'; dw_s ("steps"); dw[dwn++] = '"'; dw[dwn++] = ':'; dw_n (round_steps);
	dw[dwn++] = '}'; dw[dwn++] = '\n';
	if (witness_path) {
		long fd = __real_syscall (SYS_openat, (long) AT_FDCWD, witness_path, (long) (O_WRONLY | O_CREAT | O_TRUNC), 0644L);
		if (fd >= 0) { __real_syscall (SYS_write, fd, dw, (long) dwn); __real_syscall (SYS_close, fd); }
	}
}
static void on_signal (int s, siginfo_t *si, void *uc) {
	(void) uc;
	char sig[160]; snprintf (sig, sizeof (sig), "%s_in_%s", s == SIGSEGV ? "SIGSEGV" : s == SIGBUS ? "SIGBUS" : s == SIGFPE ? "SIGFPE" : "SIGABRT", (me >= 0 && T[me].op) ? T[me].op : "harness");
	char detail[256]; snprintf (detail, sizeof (detail), "signal %d (addr %p) in thread %d during %s", s, si ? si->si_addr : NULL, me, (me >= 0 && T[me].op) ? T[me].op : "harness code");
	void *bt[32]; int n = backtrace (bt, 32); backtrace_symbols_fd (bt, n, 2);
	die_with ("crash", sig, detail, 10);
}

/* ------------------------------------------------------------------------------------ */
/* round driver */
void nsv_cov_dump (void) __attribute__ ((weak));
static pthread_barrier_t bar_start, bar_end;
static int first_thread;

static void *worker (void *arg) {
	int tid = (int) (intptr_t) arg;
	for (;;) {
		pthread_barrier_wait (&bar_start);
		if (tid < NT) {
			me = tid;
			if (mode_b) park (tid);
			rt_scen.thread_body (tid);
			T[tid].op = NULL;
			if (mode_b) { T[tid].state = ST_DONE; handoff (0); }
			else __atomic_store_n (&T[tid].state, ST_DONE, __ATOMIC_RELEASE);
			me = -1;
		}
		pthread_barrier_wait (&bar_end);
	}
	return (NULL);
}

static void write_summary (uint64_t rounds_done, double wall, char **samples, int nsamples) {
	FILE *f = summary_path ? fopen (summary_path, "w") : stdout;
	if (!f) rt_fatal ("cannot write summary %s", summary_path);
	fprintf (f, "{\"scenario\":\"%s\",\"property\":\"%s\",\"mode\":\"%s\",\"config\":\"%s\",\"seed\":%llu,\"start_round\":%llu,\"rounds\":%llu,\"steps\":%llu,\"switches\":%llu",
		 rt_scen.name, rt_scen.property, mode_b ? "B" : "A", config_name, (unsigned long long) base_seed, (unsigned long long) start_round,
		 (unsigned long long) rounds_done, (unsigned long long) total_steps, (unsigned long long) total_switches);
	fprintf (f, ",\"distinct\":%zu,\"distinct_nontrivial\":%zu,\"distinct_capped\":%d,\"faults_fired\":%llu,\"wall_s\":%.3f", hcnt, hcnt_nt, hset_capped, (unsigned long long) faults_fired, wall);
	fprintf (f, ",\"word_values_seen\":%ld,\"word_transitions_seen\":%ld", wvals_n, wtrans_n);
	fprintf (f, ",\"counters\":{");
	{ int first = 1; for (int i = 0; i < 64; i++) if (cover_names[i]) { fprintf (f, "%s\"%s\":%ld", first ? "" : ",", cover_names[i], cover[i]); first = 0; } }
	fprintf (f, "},\"sites\":{");
	{ int first = 1; for (int i = 0; i < NSITE; i++) if (sites[i].file && sites[i].hits) { fprintf (f, "%s\"%s:%d\":%lu", first ? "" : ",", base_name (sites[i].file), sites[i].line, sites[i].hits); first = 0; } }
	fprintf (f, "}");
	if (rt_scen.summary) { fprintf (f, ","); rt_scen.summary (f); }
	fprintf (f, ",\"samples\":[");
	for (int i = 0; i < nsamples; i++) fprintf (f, "%s%s", i ? "," : "", samples[i]);
	fprintf (f, "]}\n");
	if (f != stdout) fclose (f);
	if (hashes_path) { FILE *h = fopen (hashes_path, "wb"); if (h) { for (size_t i = 0; i < hcap_nt; i++) if (hset_nt[i]) fwrite (&hset_nt[i], 8, 1, h); fclose (h); } }
}

static int cmp_ev (const void *a, const void *b) { const struct evl *x = (const struct evl *) a, *y = (const struct evl *) b; return (x->stamp < y->stamp ? -1 : x->stamp > y->stamp); }

int main (int argc, char **argv) {
	for (int i = 1; i < argc; i++) {
		const char *a = argv[i]; const char *v = (i + 1 < argc) ? argv[i + 1] : "";
		if (!strcmp (a, "--mode")) { mode_b = (v[0] == 'B' || v[0] == 'b'); i++; }
		else if (!strcmp (a, "--seed")) { base_seed = strtoull (v, NULL, 0); i++; }
		else if (!strcmp (a, "--start")) { start_round = strtoull (v, NULL, 0); i++; }
		else if (!strcmp (a, "--rounds")) { n_rounds = strtoull (v, NULL, 0); i++; }
		else if (!strcmp (a, "--summary")) { summary_path = v; i++; }
		else if (!strcmp (a, "--witness")) { witness_path = v; i++; }
		else if (!strcmp (a, "--hashes")) { hashes_path = v; i++; }
		else if (!strcmp (a, "--strategy")) { strategy = v; i++; }
		else if (!strcmp (a, "--config")) { config_name = v; i++; }
		else if (!strcmp (a, "--property")) { rt_scen.property = v; i++; }
		else if (!strcmp (a, "--tier")) { tier_thorough = !strcmp (v, "thorough"); i++; }
		else if (!strcmp (a, "--watchdog")) { watchdog_s = atoi (v); i++; }
		else if (!strcmp (a, "--samples")) { samples_wanted = atoi (v); i++; }
		else if (!strcmp (a, "--trace")) { trace = 1; }
		else if (!strcmp (a, "--param")) { const char *eq = strchr (v, '='); if (eq && n_params < 32) { size_t n = (size_t) (eq - v); if (n > 47) n = 47; memcpy (params[n_params].name, v, n); params[n_params].name[n] = 0; params[n_params].v = strtol (eq + 1, NULL, 0); n_params++; } i++; }
		else { fprintf (stderr, "unknown argument %s\n", a); return (2); }
	}
	binsem = (int) rt_param ("binsem", 0); binsem_on = binsem && !mode_b;
	ring_on = mode_b || rt_param ("ring", 0);
	if (rt_scen.max_threads > RT_MAXT) rt_fatal ("max_threads too large");
	if (__sanitizer_set_death_callback) __sanitizer_set_death_callback (on_sanitizer_death);
	{
		struct sigaction sa; memset (&sa, 0, sizeof (sa)); sa.sa_sigaction = on_signal; sa.sa_flags = SA_SIGINFO | SA_RESETHAND;
		sigaction (SIGABRT, &sa, NULL);
		if (!__sanitizer_set_death_callback) { sigaction (SIGSEGV, &sa, NULL); sigaction (SIGBUS, &sa, NULL); sigaction (SIGFPE, &sa, NULL); }
	}
	struct timespec t0; clock_gettime (CLOCK_MONOTONIC, &t0);
	if (rt_scen.process_init) rt_scen.process_init ();
	int W = rt_scen.max_threads;
	pthread_barrier_init (&bar_start, NULL, (unsigned) W + 1);
	pthread_barrier_init (&bar_end, NULL, (unsigned) W + 1);
	for (int i = 0; i < W; i++) { pthread_t t; if (pthread_create (&t, NULL, worker, (void *) (intptr_t) i)) rt_fatal ("pthread_create"); }
	{ pthread_t t; pthread_create (&t, NULL, a_monitor, NULL); }
	char *samples[8]; int nsamples = 0;
	uint64_t r;
	for (r = start_round; r < start_round + n_rounds; r++) {
		cur_round = r;
		uint64_t rs = mix64 (base_seed * 0x9E3779B97F4A7C15ull + r);
		main_rng = rs | 1;
		sig_hash = FNV_INIT; round_nontrivial = 0;
		for (int i = 0; i < RT_MAXT; i++) { T[i].state = ST_IDLE; T[i].in_round = 0; T[i].op = NULL; T[i].at = NULL; T[i].wake_delay_us = 0; T[i].a_blocked = 0; T[i].a_timed = 0; T[i].n_fault = 0; T[i].futex_waits = 0; T[i].sleeps = 0; T[i].turn = 0; T[i].timed = 0; T[i].waddr = NULL; evn[i] = 0; }
		fault_ppm = 0;
		for (int i = 0; i < 8; i++) { watched[i].addr = NULL; }
		NT = 0;
		vclock_ns = 1000000000ll * 1000;
		int n = rt_scen.round_setup (rs);
		if (n < 1 || n > W) rt_fatal ("round_setup returned %d threads", n);
		for (int i = 0; i < n; i++) { T[i].state = ST_RUN; T[i].in_round = 1; T[i].rng = mix64 (rs + 77 * (uint64_t) (i + 1)) | 1; }
		if (mode_b) {
			sched_reset (n, rs);
			sched_active = 1;
			first_thread = pick (0);
			sched_hash = fnv (sched_hash, (uint64_t) (first_thread + 1)); rle_add (first_thread);
		} else {
			NT = n; round_steps = 0;
			static const int prof[4][3] = { { 0, 0, 0 }, { 20000, 20000, 300 }, { 100000, 50000, 1000 }, { 5000, 5000, 100 } };
			int p = (int) (xs (&main_rng) % 5);
			focus_site = -1;
			if (p == 4) {   /* focus mode: one already-seen site sleeps on every visit */
				int cand[NSITE], nc = 0; for (int i = 0; i < NSITE; i++) if (sites[i].file && sites[i].hits) cand[nc++] = i;
				if (nc) { focus_site = cand[xs (&main_rng) % (unsigned) nc]; } p = 0; profile_now = "focus";
			} else profile_now = p == 0 ? "free" : p == 1 ? "light" : p == 2 ? "heavy" : "sparse";
			prof_yield_ppm = prof[p][0]; prof_spin_ppm = prof[p][1]; prof_sleep_ppm = prof[p][2];
			if (rt_param ("noperturb", 0)) { prof_yield_ppm = prof_spin_ppm = prof_sleep_ppm = 0; focus_site = -1; }
		}
		round_running = 1;
		pthread_barrier_wait (&bar_start);
		if (mode_b) unpark (first_thread);
		pthread_barrier_wait (&bar_end);
		round_running = 0;
		sched_active = 0;
		a_progress++;
		if (mode_b) { total_steps += round_steps; total_switches += round_switches; est_steps = (est_steps * 3 + round_steps) / 4 + 1; }
		rt_scen.round_check ();
		uint64_t sig;
		if (mode_b) sig = sched_hash;
		else {
			static struct evl merged[(RT_MAXT + 1) * EVCAP]; int m = 0;
			for (int i = 0; i < n; i++) for (int k = 0; k < evn[i]; k++) { merged[m] = evlog[i][k]; merged[m].code ^= (uint32_t) (i + 1) << 24; m++; }
			qsort (merged, (size_t) m, sizeof (merged[0]), cmp_ev);
			sig = sig_hash; for (int k = 0; k < m; k++) sig = fnv (sig, merged[k].code);
		}
		hset_add (&hset, &hcap, &hcnt, sig);
		if (round_nontrivial) hset_add (&hset_nt, &hcap_nt, &hcnt_nt, sig);
		if (nsamples < samples_wanted && nsamples < 8 && rt_scen.describe && (round_nontrivial || r + 1 == start_round + n_rounds || n_rounds <= 3)) {
			char *buf = NULL; size_t sz = 0; FILE *mf = open_memstream (&buf, &sz);
			fprintf (mf, "{\"round\":%llu,\"mode\":\"%s\",\"strategy\":\"%s\",\"steps\":%llu,\"switches\":%llu,\"signature\":\"%016llx\",\"case\":", (unsigned long long) r, mode_b ? "B" : "A",
				 mode_b ? strat_now : profile_now, (unsigned long long) round_steps, (unsigned long long) round_switches, (unsigned long long) sig);
			rt_scen.describe (mf);
			if (mode_b) { rle_flush (); rle_last = -1; if (sched_rle_n > 600) { sched_rle[600] = 0; } fprintf (mf, ",\"schedule_rle\":\"%s%s\"", sched_rle, sched_rle_n > 600 ? "..." : ""); }
			fprintf (mf, "}"); fclose (mf);
			samples[nsamples++] = buf;
		}
		if (rt_scen.round_teardown) rt_scen.round_teardown ();
	}
	struct timespec t1; clock_gettime (CLOCK_MONOTONIC, &t1);
	write_summary (r - start_round, (double) (t1.tv_sec - t0.tv_sec) + 1e-9 * (double) (t1.tv_nsec - t0.tv_nsec), samples, nsamples);
	fflush (NULL);
	if (nsv_cov_dump) nsv_cov_dump ();    /* coverage builds (development aid): _exit skips the atexit dump */
	_exit (0);
}
