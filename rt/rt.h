/* Runtime for the nsync runtime-monitoring checks: interface used by scenario files.
   Valid as C (gnu11) and as C++ (the scenario files are compiled in both flavours).
   See DESIGN.md section 2 and section 11. */
#ifndef NSYNC_VERIF_RT_H_
#define NSYNC_VERIF_RT_H_
#include <stdint.h>
#include <stdio.h>
#include <time.h>

#ifdef __cplusplus
extern "C" {
#endif

#define RT_MAXT 48

/* ---- what a scenario file provides ------------------------------------------------ */
typedef struct rt_scenario_s {
	const char *name;          /* e.g. "c01_mix" */
	const char *property;      /* e.g. "C01" */
	int max_threads;           /* worker threads created by the process */
	void (*process_init) (void);              /* once, before the first round (may be NULL) */
	int (*round_setup) (uint64_t seed);       /* build the round; returns #threads taking part */
	void (*thread_body) (int tid);            /* run by worker tid in 0..n-1 */
	void (*round_check) (void);               /* after every worker finished (main thread) */
	void (*round_teardown) (void);            /* free the round's objects (may be NULL) */
	void (*describe) (FILE *f);               /* one JSON value describing the current round (sample) */
	void (*summary) (FILE *f);                /* extra JSON members `"k":v,...` (no braces; may be NULL) */
	void (*dump_state) (FILE *f);             /* one JSON value with scenario state for a witness (may be NULL) */
	int (*adversary) (int self, int forced, const int *runnable, int n); /* Mode B: optional scheduling adversary: self = thread at
	                                             the scheduling point (or -1), forced = it yields; returns tid to run or -1 for "no opinion" */
	void (*idle_check) (void);                /* Mode B: called when NO thread is runnable and only pending deadlines can make progress
	                                             (the instant before the scheduler advances the clock): every sleeping thread must be
	                                             legitimately asleep at that instant (may be NULL) */
} rt_scenario;
extern rt_scenario rt_scen;

/* ---- configuration ---------------------------------------------------------------- */
int rt_mode_b (void);                 /* 1 = serialized schedule fuzzer, 0 = free running */
int rt_tier_thorough (void);
int rt_self (void);
void rt_adopt (int tid);              /* a pthread created by worker tid takes over its slot while the worker is blocked in pthread_join (thread churn) */                   /* worker id of the calling thread, -1 outside workers */
void rt_wake_delay_us (int tid, unsigned us);  /* Mode A: thread tid sleeps this long after every futex wake-up */
uint64_t rt_round (void);             /* current round number */
long rt_param (const char *name, long dflt);  /* --param name=value */

/* ---- randomness: a per-thread stream, reseeded per round; deterministic in Mode B ------ */
uint64_t rt_rand (void);
unsigned rt_rand_n (unsigned n);      /* uniform in [0,n) ; n>0 */
int rt_chance (unsigned ppm);         /* true with probability ppm / 1e6 */

/* ---- time: the SAME clock the library reads (virtual in Mode B) --------------------- */
struct timespec rt_now (void);
int64_t rt_now_ns (void);
struct timespec rt_deadline_in (int64_t ns);   /* now + ns */
int64_t rt_ts_ns (struct timespec t);

/* ---- scheduling points inside harness code ------------------------------------------- */
void rt_point (const char *tag);      /* Mode B: hand-off decision; Mode A: maybe delay */
void rt_yield (void);                 /* polling loops: Mode B forces a switch (and PCT demotes the caller); Mode A sched_yield */
void rt_sleep_us (unsigned us);       /* Mode A: real sleep; Mode B: advance virtual clock + point */
void rt_force_fire (void);            /* Mode B: the next scheduling decision fires the earliest pending deadline */

/* ---- operation tracking (names what a blocked/crashed thread was doing) -------------- */
void rt_op_begin (const char *op);
void rt_op_end (void);
#define RT_OP(name_, stmt_) do { rt_op_begin (name_); stmt_; rt_op_end (); } while (0)
/* same, declaring the absolute deadline (ns on the library's clock) the API call was given: a thread found asleep
   WITHOUT a timer inside such a call is a C05 matter */
void rt_op_deadline (int64_t deadline_ns);
/* declare that the current operation has a finite deadline AND no cancel note: inside such a call the only legitimate
   untimed sleeps are lock acquisitions (nsync_mu_lock_slow_); Mode B reports any other untimed sleep that lasts beyond
   the deadline as oracle "asleep-past-deadline" at once, even if some later wake-up would have rescued it */
void rt_op_deadline_strict (int64_t deadline_ns);
#define RT_OP_DL(name_, dl_ns_, stmt_) do { rt_op_begin (name_); rt_op_deadline (dl_ns_); stmt_; rt_op_end (); } while (0)
#define RT_OP_DLS(name_, dl_ns_, strict_, stmt_) do { rt_op_begin (name_); if (strict_) rt_op_deadline_strict (dl_ns_); else rt_op_deadline (dl_ns_); stmt_; rt_op_end (); } while (0)
/* sleeps (futex waits that really blocked or binary-semaphore waits) and atomic steps of
   the calling thread since its last rt_op_begin() */
unsigned rt_op_sleeps (void);
unsigned rt_op_steps (void);
unsigned long rt_thread_sleeps (int tid);

/* ---- controller support -------------------------------------------------------------- */
/* Block the caller until no other thread of the round can make progress without it:
   every other participant is finished, or blocked without a deadline on a semaphore
   whose count is zero (or itself waiting for quiescence).  Mode B: exact.  Mode A:
   consistent double-collect snapshot of the wrapper flags (see DESIGN 3.1). */
void rt_wait_quiescent (void);
int rt_thread_blocked (int tid);      /* valid after rt_wait_quiescent() returned */
int rt_thread_done (int tid);
int rt_thread_in_wait (int tid);      /* hint, usable at any time: tid is inside a (modelled or real) futex wait */
const char *rt_thread_op (int tid);
const char *rt_thread_at (int tid);
const volatile void *rt_thread_lock_addr (int tid);   /* address of the mutex word of tid's last CAS inside nsync_mu_lock_slow_ */
int rt_thread_timed (int tid);        /* Mode B: tid's current sleep has a timer */   /* nsync function of tid's last atomic step outside the semaphore files ("" if none) */

/* ---- word watching (shim after-hook) ------------------------------------------------- */
typedef void (*rt_word_cb) (int idx, int op, uint32_t old_v, uint32_t new_v, int ok);
void rt_watch_word (int idx, const volatile void *addr, rt_word_cb cb); /* idx in 0..7; addr NULL clears */

/* ---- events for interleaving signatures (Mode A) and histories ----------------------- */
uint64_t rt_stamp (void);             /* global logical stamp (monotone) */
void rt_ev (uint32_t code);           /* boundary event for the round signature */
void rt_distinct_add (uint64_t h);    /* input-space scenarios: count case h as distinct and non-trivial (one thread at a time) */
void rt_mark_nontrivial (void);       /* this round contained the contention the property is about */
void rt_cover (int counter);          /* coverage counters 0..63, summed per process */
void rt_cover_add (int counter, long v);
void rt_cover_name (int counter, const char *name);

/* ---- futex fault plan (Mode B and Mode A) -------------------------------------------- */
/* the k-th futex wait of the round issued by thread tid (k from 0) returns -1/errs[k]
   instead of waiting when errs[k] != 0 */
#define RT_FAULT_SPURIOUS_WAKE (-1)   /* plan entry: the futex wait returns 0 at once although nobody posted (a stale wake-up) */
void rt_fault_plan (int tid, const int *errs, int n);
void rt_fault_random (unsigned ppm);  /* random EINTR/EAGAIN injection probability */
unsigned long rt_faults_fired (void);

/* ---- malloc failure plan (needs -Wl,--wrap=malloc) ------------------------------------ */
void rt_malloc_ranges_clear (void);
void rt_malloc_range_add (const void *lo, const void *hi);   /* code range whose malloc calls are candidates */
void rt_malloc_fail_nth (long n);     /* fail the n-th (from 0) candidate malloc from now on; n<0: none; resets the counters */
void rt_malloc_scope_mode (int on);   /* candidates = allocations made by a thread inside rt_malloc_scope(+1)..(-1) and NOT from a registered range */
void rt_malloc_scope (int delta);
long rt_malloc_seen (void);           /* candidate mallocs seen since the plan was set */
long rt_malloc_other (void);          /* other (wrapped) mallocs seen, e.g. waiter-pool allocations */
long rt_malloc_failed (void);

/* ---- verdicts ------------------------------------------------------------------------ */
/* Record a violation: writes the witness and terminates the process (exit code 10). */
void rt_violation (const char *oracle, const char *signature, const char *fmt, ...)
	__attribute__ ((format (printf, 3, 4), noreturn));
/* harness failure (exit code 2) */
void rt_fatal (const char *fmt, ...) __attribute__ ((format (printf, 1, 2), noreturn));
#define RT_ASSERT_HARNESS(c_) do { if (!(c_)) rt_fatal ("harness assertion failed: %s (%s:%d)", #c_, __FILE__, __LINE__); } while (0)

/* free-form history line kept in a ring and written into witnesses */
void rt_note (const char *fmt, ...) __attribute__ ((format (printf, 1, 2)));

#ifdef __cplusplus
}
#endif
#endif
