/* Step shim for the nsync verification builds (guard: NSYNC_VERIF).

   This directory is put FIRST on the include path of every verification build, so
   every nsync source that says #include "atomic.h" gets this file.  It pulls in
   the repository's own atomic.h with #include_next (whichever platform directory the
   build selected), so the memory orders declared there stay in force.  It then
   defines eight wrappers whose bodies EXPAND THE REPOSITORY'S MACROS at this point,
   and finally redefines the eight ATM_* macros to call the wrappers.  A change to a
   call-site suffix, to a macro->helper mapping or to a helper's memory order in the
   repository is therefore not masked by the shim.

   Every ATM_* call site first calls nsync_verif_step_() (scheduling point / delay
   injection / site coverage) and, for stores and CASes, afterwards
   nsync_verif_done_() (word-level observation).  */
#ifndef NSYNC_VERIF_SHIM_ATOMIC_H_
#define NSYNC_VERIF_SHIM_ATOMIC_H_
#include_next "atomic.h"

#if defined(NSYNC_VERIF)

#ifdef __cplusplus
extern "C" {
#endif
void nsync_verif_step_ (const char *file, int line, const char *func, int op, const volatile void *addr);
void nsync_verif_done_ (int op, const volatile void *addr, uint32_t old_v, uint32_t new_v, int ok);
#ifdef __cplusplus
}
#endif

enum {
	NSV_CAS = 1, NSV_CAS_ACQ, NSV_CAS_REL, NSV_CAS_RELACQ,
	NSV_LOAD, NSV_LOAD_ACQ, NSV_STORE, NSV_STORE_REL
};

NSYNC_CPP_START_
static __inline__ int nsync_verif_cas_ (const char *f, int l, const char *fn, nsync_atomic_uint32_ *p, uint32_t o, uint32_t n) {
	int r; nsync_verif_step_ (f, l, fn, NSV_CAS, p); r = (ATM_CAS (p, o, n)); nsync_verif_done_ (NSV_CAS, p, o, n, r); return (r);
}
static __inline__ int nsync_verif_cas_acq_ (const char *f, int l, const char *fn, nsync_atomic_uint32_ *p, uint32_t o, uint32_t n) {
	int r; nsync_verif_step_ (f, l, fn, NSV_CAS_ACQ, p); r = (ATM_CAS_ACQ (p, o, n)); nsync_verif_done_ (NSV_CAS_ACQ, p, o, n, r); return (r);
}
static __inline__ int nsync_verif_cas_rel_ (const char *f, int l, const char *fn, nsync_atomic_uint32_ *p, uint32_t o, uint32_t n) {
	int r; nsync_verif_step_ (f, l, fn, NSV_CAS_REL, p); r = (ATM_CAS_REL (p, o, n)); nsync_verif_done_ (NSV_CAS_REL, p, o, n, r); return (r);
}
static __inline__ int nsync_verif_cas_relacq_ (const char *f, int l, const char *fn, nsync_atomic_uint32_ *p, uint32_t o, uint32_t n) {
	int r; nsync_verif_step_ (f, l, fn, NSV_CAS_RELACQ, p); r = (ATM_CAS_RELACQ (p, o, n)); nsync_verif_done_ (NSV_CAS_RELACQ, p, o, n, r); return (r);
}
static __inline__ uint32_t nsync_verif_load_ (const char *f, int l, const char *fn, nsync_atomic_uint32_ *p) {
	nsync_verif_step_ (f, l, fn, NSV_LOAD, p); return (ATM_LOAD (p));
}
static __inline__ uint32_t nsync_verif_load_acq_ (const char *f, int l, const char *fn, nsync_atomic_uint32_ *p) {
	nsync_verif_step_ (f, l, fn, NSV_LOAD_ACQ, p); return (ATM_LOAD_ACQ (p));
}
static __inline__ void nsync_verif_store_ (const char *f, int l, const char *fn, nsync_atomic_uint32_ *p, uint32_t v) {
	nsync_verif_step_ (f, l, fn, NSV_STORE, p); ATM_STORE (p, v); nsync_verif_done_ (NSV_STORE, p, 0, v, 1);
}
static __inline__ void nsync_verif_store_rel_ (const char *f, int l, const char *fn, nsync_atomic_uint32_ *p, uint32_t v) {
	nsync_verif_step_ (f, l, fn, NSV_STORE_REL, p); ATM_STORE_REL (p, v); nsync_verif_done_ (NSV_STORE_REL, p, 0, v, 1);
}
NSYNC_CPP_END_

#undef ATM_CAS
#undef ATM_CAS_ACQ
#undef ATM_CAS_REL
#undef ATM_CAS_RELACQ
#undef ATM_LOAD
#undef ATM_LOAD_ACQ
#undef ATM_STORE
#undef ATM_STORE_REL
#define ATM_CAS(p,o,n)        nsync_verif_cas_ (__FILE__, __LINE__, __func__, (nsync_atomic_uint32_ *)(p), (o), (n))
#define ATM_CAS_ACQ(p,o,n)    nsync_verif_cas_acq_ (__FILE__, __LINE__, __func__, (nsync_atomic_uint32_ *)(p), (o), (n))
#define ATM_CAS_REL(p,o,n)    nsync_verif_cas_rel_ (__FILE__, __LINE__, __func__, (nsync_atomic_uint32_ *)(p), (o), (n))
#define ATM_CAS_RELACQ(p,o,n) nsync_verif_cas_relacq_ (__FILE__, __LINE__, __func__, (nsync_atomic_uint32_ *)(p), (o), (n))
#define ATM_LOAD(p)           nsync_verif_load_ (__FILE__, __LINE__, __func__, (nsync_atomic_uint32_ *)(p))
#define ATM_LOAD_ACQ(p)       nsync_verif_load_acq_ (__FILE__, __LINE__, __func__, (nsync_atomic_uint32_ *)(p))
#define ATM_STORE(p,v)        nsync_verif_store_ (__FILE__, __LINE__, __func__, (nsync_atomic_uint32_ *)(p), (v))
#define ATM_STORE_REL(p,v)    nsync_verif_store_rel_ (__FILE__, __LINE__, __func__, (nsync_atomic_uint32_ *)(p), (v))

#endif /* NSYNC_VERIF */
#endif
