/* alloc_fail: C19 -- allocation failure is reported by nsync_note_new / nsync_counter_new,
   not crashed on, and leaves every existing object unchanged and usable.

   Linked with -Wl,--wrap=malloc,--wrap=calloc: the runtime fails the k-th allocation made by a
   thread while it is inside a constructor call (the harness brackets every call), wherever in
   the library it comes from (so a constructor split into helpers is still covered), except
   allocations made by the waiter pool behind nsync_mu_lock (caller inside nsync_waiter_new_,
   extent from dladdr1/ELF symbol size): those are counted but never failed -- the statement
   is about the constructors.

   Round r: thread 0 builds a tree of 7 notes and 3 counters (10 constructor calls); with
   two threads, thread 1 concurrently polls the root, creates and frees children of the root
   and counters of its own (contending for the root's lock) and finally waits, without
   deadline, on a note that existed before the failure.  k = r mod 13 (k >= number of calls
   = control round without failure).  Every constructor call goes through a helper that, on
   NULL: checks the intended parent (notified state and expiry unchanged), retries (must succeed).
   After both threads finished constructing, thread 0 notifies the root: every live note must
   be notified, the waiter must return.  Then it constructs four more notes whose parents are
   ALREADY notified or expired (children of the notified root, of a notified leaf, of a note
   whose deadline has passed and was / was not observed): the failure index can land there too.
   Finally everything is freed (ASan build).
   Oracle: #NULL returns == #failed mallocs (each failure reported, no spurious NULL), no
   crash, no hang, propagation intact.  */
#define _GNU_SOURCE
#include "sc.h"
#include <dlfcn.h>
#include <link.h>

#define NNOTE 7
#define NLATE 4
#define NCTR 3
static struct {
	nsync_note note[NNOTE + 8]; int nnote;
	nsync_note late[NLATE], expired[2];
	nsync_counter ctr[NCTR]; int nctr;
	int nulls;              /* NULL returns seen (both threads) */
	int calls;
	int k, two;
	int t1_done_constructing;
	int fn_ok;
} S;
enum { CV_NULLS = 0, CV_CALLS, CV_CONTROL_ROUNDS, CV_OTHER_MALLOCS, CV_NOTE_NULL, CV_CTR_NULL, CV_T1_NULL, CV_PARENT_NOTIFIED, CV_NULL_NOTIFIED_PARENT };

static void fn_range (void *fn, const char *name) {
	Dl_info info; ElfW(Sym) *sym = NULL;
	if (!dladdr1 (fn, &info, (void **) &sym, RTLD_DL_SYMENT) || sym == NULL || sym->st_size == 0 || info.dli_saddr != fn)
		rt_fatal ("cannot determine the extent of %s (link with -rdynamic)", name);
	rt_malloc_range_add (fn, (const char *) fn + sym->st_size);
}

static nsync_note mk_note (nsync_note parent, nsync_time dl, int tid) {
	nsync_note n;
	nsync_time pexp = nsync_time_zero; int pq = 0;
	if (parent != NULL) { pexp = nsync_note_expiry (parent); pq = nsync_note_is_notified (parent); if (pq) rt_cover (CV_PARENT_NOTIFIED); }
	__atomic_fetch_add (&S.calls, 1, __ATOMIC_RELAXED); rt_cover (CV_CALLS);
	rt_malloc_scope (1);
	RT_OP ("nsync_note_new", n = nsync_note_new (parent, dl));
	rt_malloc_scope (-1);
	if (n == NULL) {
		__atomic_fetch_add (&S.nulls, 1, __ATOMIC_RELAXED); rt_cover (CV_NULLS); rt_cover (CV_NOTE_NULL); if (tid) rt_cover (CV_T1_NULL);
		rt_mark_nontrivial ();
		if (parent != NULL) {
			int q; RT_OP ("nsync_note_is_notified", q = nsync_note_is_notified (parent));
			if (pq) rt_cover (CV_NULL_NOTIFIED_PARENT);
			if (q != pq) rt_violation ("parent-changed", "notified", "after nsync_note_new failed for lack of memory its intended parent's notified state changed from %d to %d", pq, q);
			if (!pq && nsync_time_cmp (nsync_note_expiry (parent), pexp) != 0) rt_violation ("parent-changed", "expiry", "after nsync_note_new failed the parent's expiry changed");
		}
		RT_OP ("nsync_note_new", n = nsync_note_new (parent, dl));
		if (n == NULL) rt_violation ("retry-failed", "nsync_note_new", "nsync_note_new returned NULL again although memory is available");
	}
	return (n);
}
static nsync_counter mk_ctr (uint32_t v, int tid) {
	nsync_counter c;
	__atomic_fetch_add (&S.calls, 1, __ATOMIC_RELAXED); rt_cover (CV_CALLS);
	rt_malloc_scope (1);
	RT_OP ("nsync_counter_new", c = nsync_counter_new (v));
	rt_malloc_scope (-1);
	if (c == NULL) {
		__atomic_fetch_add (&S.nulls, 1, __ATOMIC_RELAXED); rt_cover (CV_NULLS); rt_cover (CV_CTR_NULL); if (tid) rt_cover (CV_T1_NULL);
		rt_mark_nontrivial ();
		RT_OP ("nsync_counter_new", c = nsync_counter_new (v));
		if (c == NULL) rt_violation ("retry-failed", "nsync_counter_new", "nsync_counter_new returned NULL again although memory is available");
	}
	if (nsync_counter_value (c) != v) rt_violation ("counter-value", "nsync_counter_new", "new counter holds %u instead of %u", nsync_counter_value (c), v);
	return (c);
}

static void body (int tid) {
	int i;
	if (tid == 0) {
		nsync_time far_dl = rt_deadline_in (1000000000ll * 100000ll);
		/* notes 0 and 1 exist before any failure is armed (setup); build the rest */
		for (i = S.nnote; i < NNOTE; i++) { S.note[i] = mk_note (S.note[rt_rand_n ((unsigned) i)], rt_rand_n (2) ? nsync_time_no_deadline : far_dl, 0); S.nnote = i + 1; rt_point ("built"); }
		for (i = 0; i < NCTR; i++) { S.ctr[i] = mk_ctr (1 + (uint32_t) i, 0); S.nctr = i + 1; }
		if (S.two) { int spins = 0; while (!__atomic_load_n (&S.t1_done_constructing, __ATOMIC_ACQUIRE)) { rt_yield (); if (!rt_mode_b ()) rt_sleep_us (50); if (++spins > 4000000) rt_fatal ("thread 1 never finished"); } }
		for (i = 0; i < S.nctr; i++) if (nsync_counter_value (S.ctr[i]) != 1 + (uint32_t) i) rt_violation ("counter-value", "existing", "an existing counter changed value");
		RT_OP ("nsync_note_notify", nsync_note_notify (S.note[0]));
		for (i = 0; i < S.nnote; i++) { int q; RT_OP ("nsync_note_is_notified", q = nsync_note_is_notified (S.note[i]));
			if (!q) rt_violation ("propagation-broken", "descendant", "after a constructor failure, notifying the root did not notify descendant %d", i); }
		/* constructors whose parent is already notified / expired */
		{ int q; RT_OP ("nsync_note_is_notified", q = nsync_note_is_notified (S.expired[0])); (void) q; }      /* expired[0]: expiry observed; expired[1]: not yet looked at */
		for (i = 0; i < NLATE; i++) {
			nsync_note parent = i == 0 ? S.note[0] : i == 1 ? S.note[NNOTE - 1] : S.expired[i - 2];
			S.late[i] = mk_note (parent, rt_rand_n (2) ? nsync_time_no_deadline : far_dl, 0);
			if (!nsync_note_is_notified (S.late[i])) rt_violation ("born-notified", "late-child", "a note created under a parent that is notified or expired is not notified");
		}
	} else {
		int n = 2 + (int) rt_rand_n (4);
		for (i = 0; i < n; i++) {
			unsigned r = rt_rand_n (3);
			if (r == 0) { int q; RT_OP ("nsync_note_is_notified", q = nsync_note_is_notified (S.note[0])); (void) q; }
			else if (r == 1) { nsync_note c = mk_note (S.note[0], nsync_time_no_deadline, 1); RT_OP ("nsync_note_free", nsync_note_free (c)); }
			else { nsync_counter c = mk_ctr (5, 1); RT_OP ("nsync_counter_free", nsync_counter_free (c)); }
			rt_point ("t1");
		}
		__atomic_store_n (&S.t1_done_constructing, 1, __ATOMIC_RELEASE);
		{ int q; RT_OP ("nsync_note_wait", q = nsync_note_wait (S.note[1], nsync_time_no_deadline));
		  if (!q) rt_violation ("propagation-broken", "waiter", "nsync_note_wait without deadline returned 0"); }
	}
}

static int setup (uint64_t seed) {
	(void) seed;
	if (!S.fn_ok) {
		rt_malloc_ranges_clear ();
		{ void *wf = dlsym (RTLD_DEFAULT, "nsync_waiter_new_");            /* excluded: the waiter pool (internal symbol; C or C++ name) */
		  if (wf == NULL) wf = dlsym (RTLD_DEFAULT, "_ZN5nsync17nsync_waiter_new_Ev");
		  if (wf == NULL) rt_fatal ("cannot find nsync_waiter_new_ (link with -rdynamic)");
		  fn_range (wf, "nsync_waiter_new_"); }
		rt_malloc_scope_mode (1);
		S.fn_ok = 1;
	}
	rt_malloc_fail_nth (-1);
	memset (S.note, 0, sizeof (S.note)); memset (S.ctr, 0, sizeof (S.ctr)); memset (S.late, 0, sizeof (S.late));
	S.nulls = 0; S.calls = 0; S.nctr = 0; S.t1_done_constructing = 0;
	S.note[0] = nsync_note_new (NULL, nsync_time_no_deadline);
	S.note[1] = nsync_note_new (S.note[0], nsync_time_no_deadline);
	S.expired[0] = nsync_note_new (NULL, nsync_time_s_ns (5, 0));      /* deadlines long past */
	S.expired[1] = nsync_note_new (NULL, nsync_time_s_ns (6, 0));
	if (S.note[0] == NULL || S.note[1] == NULL || S.expired[0] == NULL || S.expired[1] == NULL) rt_fatal ("setup allocation failed");
	S.nnote = 2;
	S.two = (int) (rt_round () / 17) % 2;
	S.k = (int) (rt_round () % 17);
	rt_ev ((uint32_t) (S.k | S.two << 8));
	rt_malloc_fail_nth (S.k);
	return (S.two ? 2 : 1);
}
static void check (void) {
	long failed = rt_malloc_failed (), seen = rt_malloc_seen ();
	rt_cover_add (CV_OTHER_MALLOCS, rt_malloc_other ());
	rt_malloc_fail_nth (-1);
	if (S.nulls != failed) rt_violation ("null-count", failed > S.nulls ? "failure-not-reported" : "spurious-null", "%ld constructor allocation(s) were failed but %d constructor call(s) returned NULL", failed, S.nulls);
	if (seen > S.k && failed != 1) rt_fatal ("plan did not fire: seen=%ld k=%d failed=%ld", seen, S.k, failed);
	if (failed == 0) rt_cover (CV_CONTROL_ROUNDS);
}
static void teardown (void) {
	int i;
	for (i = 0; i < NLATE; i++) if (S.late[i]) nsync_note_free (S.late[i]);
	nsync_note_free (S.expired[0]); nsync_note_free (S.expired[1]);
	for (i = S.nnote - 1; i >= 0; i--) if (S.note[i]) nsync_note_free (S.note[i]);
	for (i = 0; i < S.nctr; i++) if (S.ctr[i]) nsync_counter_free (S.ctr[i]);
}
static void describe (FILE *f) { fprintf (f, "{\"fail_allocation_index\":%d,\"threads\":%d,\"constructor_calls\":%d,\"null_returns\":%d}", S.k, S.two ? 2 : 1, S.calls, S.nulls); }
static void pinit (void) {
	rt_cover_name (CV_NULLS, "null_returns"); rt_cover_name (CV_CALLS, "constructor_calls"); rt_cover_name (CV_CONTROL_ROUNDS, "rounds_without_failure");
	rt_cover_name (CV_OTHER_MALLOCS, "non_constructor_mallocs_seen_not_failed"); rt_cover_name (CV_NOTE_NULL, "note_new_null"); rt_cover_name (CV_CTR_NULL, "counter_new_null"); rt_cover_name (CV_T1_NULL, "null_seen_by_concurrent_thread"); rt_cover_name (CV_PARENT_NOTIFIED, "constructor_calls_with_notified_or_expired_parent"); rt_cover_name (CV_NULL_NOTIFIED_PARENT, "null_returns_with_notified_or_expired_parent");
}
rt_scenario rt_scen = { "alloc_fail", "C19", 2, &pinit, &setup, &body, &check, &teardown, &describe, NULL, &describe, NULL };
