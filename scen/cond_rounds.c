/* cond_rounds: conditional critical sections (nsync_mu_wait*) -- C06, and the lock hand-off
   they depend on (C02), with every return checked as in C05.

   Thread 0 is the driver/controller; threads 1..n are waiters; optionally one thread of
   plain lock traffic and one of cv traffic on the same mutex.

   Only the driver changes the variables var[k], in write sections that end with
   nsync_mu_unlock() (or by waiting).  In most rounds they only go from 0 to 1, one per
   section; in "toggle" rounds the driver also runs barging sections that make an already
   true variable false again and another one true, straight after the section that made the
   first one true (so a woken waiter finds its condition false again and has to wait again
   while it carries the duty of waking others); every variable is true at the end.  Between those sections the driver runs read
   sections, try-lock sections and write sections that change nothing and end with
   nsync_mu_unlock_without_wakeup().  Waiters wait (reader or writer mode; with the same
   function and argument as a neighbour, the same function and another argument, an
   equivalent argument under condition_arg_eq, or another function; some with a deadline
   or a cancel note, so they leave the middle of the queue).

   Oracles:
     - after a section that set var[k] the driver waits for quiescence (exact in Mode B;
       consistent snapshot in Mode A): a waiter that registered for an already-true
       variable and is still asleep is a lost wake-up of C06;
     - every thread finishes (scheduler deadlock rule);
     - result 0 <=> condition true at return; ETIMEDOUT only at/after the deadline; ECANCELED
       only with the note notified; mode at return == mode at entry;
     - inside every condition callback: no other thread is inside a write section, and the
       mutex word shows a holder.  */
#include "sc.h"

#define NV 3
#define MAXW 5
#define MAXS 8

struct alias { int *p; };
struct wspec { int reader, var, fkind, timed, dl_ns, note, second, var2, fkind2; };

static struct {
	nsync_mu mu;
	nsync_cv cv;
	nsync_note note;
	int var[NV];                    /* PLAIN: protected by mu (ThreadSanitizer judges the hand-off) */
	int varsh[NV];                  /* shadow kept with relaxed atomics (no happens-before edges) for oracles that run outside the mutex */
	int W, R;
	int nw;                         /* waiters: tids 1..nw */
	int traffic, cvtraffic;         /* tids of the optional extra threads, or 0 */
	struct wspec w[MAXW + 1];
	struct alias al[MAXW + 1][NV];
	int waiting_on[RT_MAXT];        /* var index a waiter registered for, or -1 */
	int nsec, sec_set[MAXS], sec_clr[MAXS];   /* driver sections: variable made true / made false (-1 = none) */
	int drv_gaps[MAXS], drv_read[MAXS], drv_nowake[MAXS], drv_try[MAXS], drv_check[MAXS];
	int drv_endwait[MAXS];            /* the driver ends this section by WAITING (nsync_mu_wait on the release flag) instead of unlocking */
	int releaser;                   /* tid of the releaser/controller thread of rounds with such sections, or 0 */
	int rel, driver_waiting, driver_done;
	int drv_notify;                 /* driver notifies the cancel note before this section (NV = only at the end) */
	int nthreads;
} S;

enum { CV_WAITS = 0, CV_SLEPT, CV_TIMEDOUT, CV_CANCELLED, CV_EVALS, CV_QCHECKS, CV_NOWAKE, CV_READER_WAITS, CV_SAMEFN_DIFFARG, CV_EQ_ARGS, CV_DRV_SLEPT, CV_ENDWAIT, CV_TOGGLE, CV_IDLE };

static void cond_ctx (void) {
	int w = sc_get (&S.W);
	uint32_t word = sc_word (&S.mu.word);
	rt_cover (CV_EVALS);
	if (w != 0) rt_violation ("cond-during-write", "callback", "a wait condition was evaluated while %d other thread(s) are inside a write section (word=%#x)", w, word);
	if ((word & SC_MU_ANY_LOCK) == 0) rt_violation ("cond-unheld", "callback", "a wait condition was evaluated while the mutex word %#x shows no holder", word);
}
static int is_set (const void *v) { cond_ctx (); return (*(const int *) v != 0); }
static int is_set2 (const void *v) { cond_ctx (); return (*(const int *) v != 0); }
static int is_set_alias (const void *v) { cond_ctx (); return (*((const struct alias *) v)->p != 0); }
static int alias_eq (const void *a, const void *b) { return (((const struct alias *) a)->p == ((const struct alias *) b)->p); }

static void word_cb (int idx, int op, uint32_t old_v, uint32_t new_v, int ok) {
	(void) idx; (void) op;
	if (ok && (new_v & SC_MU_WLOCK) != 0 && (new_v & SC_MU_RLOCK_FIELD) != 0)
		rt_violation ("exclusion-word", "wlock-and-readers", "mutex word %#x written with both the writer bit and a reader count (old %#x)", new_v, old_v);
}

static void enter (int writer, const char *how) {
	int isr;
	if (writer) {
		int w = sc_inc (&S.W), r = sc_get (&S.R);
		if (w != 0 || r != 0) rt_violation ("exclusion", how, "writer entered via %s while %d writer(s) and %d reader(s) are inside", how, w, r);
	} else {
		sc_inc (&S.R);
		if (sc_get (&S.W) != 0) rt_violation ("exclusion", how, "reader entered via %s while a writer is inside", how);
	}
	isr = nsync_mu_is_reader (&S.mu);
	if (isr != !writer) rt_violation ("mode", how, "%s returned holding the mutex in %s mode, expected %s mode", how, isr ? "read" : "write", writer ? "write" : "read");
}
static void leave (int writer) { if (writer) sc_dec (&S.W); else sc_dec (&S.R); }

static void one_wait (int tid, int reader, int var, int fkind, int timed, int dl_ns, int use_note) {
	int (*f) (const void *) = fkind == 1 ? &is_set2 : fkind == 2 ? &is_set_alias : &is_set;
	const void *arg = fkind == 2 ? (const void *) &S.al[tid][var] : (const void *) &S.var[var];
	int (*eq) (const void *, const void *) = fkind == 2 ? &alias_eq : NULL;
	rt_cover (CV_WAITS);
	if (reader) rt_cover (CV_READER_WAITS);
	if (fkind == 2) rt_cover (CV_EQ_ARGS);
	for (;;) {
		int r = 0; nsync_time dl = nsync_time_no_deadline; nsync_note note = use_note ? S.note : NULL;
		const char *api = "nsync_mu_wait";
		sc_set (&S.waiting_on[tid], var);
		leave (!reader);
		if (timed || note != NULL) {
			api = "nsync_mu_wait_with_deadline";
			if (timed) dl = rt_deadline_in (dl_ns);
			RT_OP_DLS (api, timed ? rt_ts_ns (dl) : 0, note == NULL, r = nsync_mu_wait_with_deadline (&S.mu, f, arg, eq, dl, note));
		} else {
			RT_OP (api, nsync_mu_wait (&S.mu, f, arg, eq));
		}
		if (rt_op_sleeps ()) { rt_cover (CV_SLEPT); rt_mark_nontrivial (); }
		enter (!reader, api);
		sc_set (&S.waiting_on[tid], -1);
		rt_ev (0x200u | (uint32_t) (r & 0xff) | ((uint32_t) var << 12));
		if (r == 0) {
			if (!S.var[var]) rt_violation ("muwait-result", api, "%s returned 0 but its condition is false", api);
			break;
		}
		if (S.var[var]) rt_violation ("muwait-result", api, "%s returned %d although its condition is true at return", api, r);
		if (r == ETIMEDOUT) {
			rt_cover (CV_TIMEDOUT);
			if (!timed) rt_violation ("return-reason", api, "ETIMEDOUT without a deadline");
			if (nsync_time_cmp (rt_now (), dl) < 0) rt_violation ("return-reason", api, "ETIMEDOUT at %lld ns, before the deadline %lld ns", (long long) rt_now_ns (), (long long) rt_ts_ns (dl));
			timed = 0;
		} else if (r == ECANCELED) {
			rt_cover (CV_CANCELLED);
			if (note == NULL || !nsync_note_is_notified (note)) rt_violation ("return-reason", api, "ECANCELED but the note is %s", note ? "not notified" : "absent");
			use_note = 0;
		} else rt_violation ("return-reason", api, "unexpected result %d", r);
	}
}

static void waiter (int tid) {
	const struct wspec *w = &S.w[tid];
	if (w->reader) { RT_OP ("nsync_mu_rlock", nsync_mu_rlock (&S.mu)); enter (0, "nsync_mu_rlock"); }
	else { RT_OP ("nsync_mu_lock", nsync_mu_lock (&S.mu)); enter (1, "nsync_mu_lock"); }
	one_wait (tid, w->reader, w->var, w->fkind, w->timed, w->dl_ns, w->note);
	if (w->second) one_wait (tid, w->reader, w->var2, w->fkind2, 0, 0, 0);
	leave (!w->reader);
	if (w->reader) RT_OP ("nsync_mu_runlock", nsync_mu_runlock (&S.mu));
	else RT_OP ("nsync_mu_unlock", nsync_mu_unlock (&S.mu));
}

static void traffic (int tid) {
	int i, n = 2 + (int) rt_rand_n (4);
	(void) tid;
	for (i = 0; i < n; i++) {
		unsigned k = rt_rand_n (4);
		if (k == 0) { RT_OP ("nsync_mu_rlock", nsync_mu_rlock (&S.mu)); enter (0, "nsync_mu_rlock"); rt_point ("rsec"); leave (0); RT_OP ("nsync_mu_runlock", nsync_mu_runlock (&S.mu)); }
		else if (k == 1) { RT_OP ("nsync_mu_lock", nsync_mu_lock (&S.mu)); enter (1, "nsync_mu_lock"); rt_point ("wsec"); leave (1);
			if (rt_rand_n (2)) { rt_cover (CV_NOWAKE); RT_OP ("nsync_mu_unlock_without_wakeup", nsync_mu_unlock_without_wakeup (&S.mu)); } else RT_OP ("nsync_mu_unlock", nsync_mu_unlock (&S.mu)); }
		else if (k == 2) { int r; RT_OP ("nsync_mu_rtrylock", r = nsync_mu_rtrylock (&S.mu)); if (r) { enter (0, "nsync_mu_rtrylock"); leave (0); RT_OP ("nsync_mu_runlock", nsync_mu_runlock (&S.mu)); } }
		else { int r; RT_OP ("nsync_mu_trylock", r = nsync_mu_trylock (&S.mu)); if (r) { enter (1, "nsync_mu_trylock"); leave (1); RT_OP ("nsync_mu_unlock", nsync_mu_unlock (&S.mu)); } }
		rt_point ("gap");
	}
}

static void cvtraffic (int tid) {
	int i, n = 1 + (int) rt_rand_n (3);
	(void) tid;
	for (i = 0; i < n; i++) {
		int reader = (int) rt_rand_n (2), r;
		if (reader) { RT_OP ("nsync_mu_rlock", nsync_mu_rlock (&S.mu)); enter (0, "nsync_mu_rlock"); }
		else { RT_OP ("nsync_mu_lock", nsync_mu_lock (&S.mu)); enter (1, "nsync_mu_lock"); }
		leave (!reader);
		RT_OP ("nsync_cv_wait_with_deadline", r = nsync_cv_wait_with_deadline (&S.cv, &S.mu, rt_deadline_in (rt_mode_b () ? (int64_t) rt_rand_n (20000) : (int64_t) rt_rand_n (200000)), NULL));
		(void) r;
		enter (!reader, "nsync_cv_wait_with_deadline");
		leave (!reader);
		if (reader) RT_OP ("nsync_mu_runlock", nsync_mu_runlock (&S.mu)); else RT_OP ("nsync_mu_unlock", nsync_mu_unlock (&S.mu));
	}
}

static void quiescence_check (const char *when) {
	int t;
	rt_wait_quiescent ();
	rt_cover (CV_QCHECKS);
	for (t = 1; t <= S.nw; t++) {
		int k = sc_get (&S.waiting_on[t]);
		if (k >= 0 && sc_get (&S.varsh[k]) && rt_thread_blocked (t))
			rt_violation ("cond-true-asleep", rt_thread_op (t), "%s: waiter %d (%s, %s mode) is asleep although its condition var[%d] was made true by a section that ended with nsync_mu_unlock and nothing else can run (mutex word %#x)",
				      when, t, rt_thread_op (t), S.w[t].reader ? "read" : "write", k, sc_word (&S.mu.word));
	}
}

/* Mode B idle oracle: nothing is runnable and only timers are pending.  A waiter asleep on a true condition while the
   mutex is free was not woken by the release that followed the change, even if its own deadline would rescue it.  */
static void idle_check (void) {
	uint32_t word = sc_word (&S.mu.word);
	int t;
	rt_cover (CV_IDLE);
	if ((word & (SC_MU_ANY_LOCK | 2u)) != 0) return;
	for (t = 0; t < S.nthreads; t++)
		if (rt_thread_blocked (t) && !rt_thread_timed (t) && !strcmp (rt_thread_at (t), "nsync_mu_lock_slow_") && rt_thread_lock_addr (t) == (const volatile void *) &S.mu.word)
			rt_violation ("asleep-on-free-mutex", rt_thread_op (t), "idle instant (only deadlines pending): the mutex word %#x shows no holder, yet thread %d is asleep in %s waiting for it", word, t, rt_thread_op (t));
	for (t = 1; t <= S.nw; t++) {
		int k = sc_get (&S.waiting_on[t]);
		if (k >= 0 && sc_get (&S.varsh[k]) && rt_thread_blocked (t))
			rt_violation ("cond-true-asleep", rt_thread_op (t), "idle instant (only deadlines pending): waiter %d (%s, %s mode) is asleep although its condition var[%d] is true and the mutex is free (word %#x)",
				      t, rt_thread_op (t), S.w[t].reader ? "read" : "write", k, word);
	}
}

static void driver (void) {
	int i;
	for (i = 0; i < S.nsec; i++) {
		int g;
		for (g = 0; g < S.drv_gaps[i]; g++) rt_point ("driver-gap");
		if (i == S.drv_notify) RT_OP ("nsync_note_notify", nsync_note_notify (S.note));
		if (S.drv_read[i]) { RT_OP ("nsync_mu_rlock", nsync_mu_rlock (&S.mu)); if (rt_op_sleeps ()) rt_cover (CV_DRV_SLEPT); enter (0, "nsync_mu_rlock"); rt_point ("drv-rsec"); leave (0); RT_OP ("nsync_mu_runlock", nsync_mu_runlock (&S.mu)); }
		if (S.drv_try[i]) { int r; RT_OP ("nsync_mu_trylock", r = nsync_mu_trylock (&S.mu)); if (r) { enter (1, "nsync_mu_trylock"); leave (1); RT_OP ("nsync_mu_unlock", nsync_mu_unlock (&S.mu)); } }
		if (S.drv_nowake[i]) { RT_OP ("nsync_mu_lock", nsync_mu_lock (&S.mu)); if (rt_op_sleeps ()) rt_cover (CV_DRV_SLEPT); enter (1, "nsync_mu_lock"); rt_point ("drv-nochange"); leave (1); rt_cover (CV_NOWAKE);
			RT_OP ("nsync_mu_unlock_without_wakeup", nsync_mu_unlock_without_wakeup (&S.mu)); }
		if (S.cvtraffic && rt_rand_n (2)) RT_OP ("nsync_cv_signal", nsync_cv_signal (&S.cv));
		RT_OP ("nsync_mu_lock", nsync_mu_lock (&S.mu));
		if (rt_op_sleeps ()) rt_cover (CV_DRV_SLEPT);
		enter (1, "nsync_mu_lock");
		if (S.sec_clr[i] >= 0) { S.var[S.sec_clr[i]] = 0; sc_set (&S.varsh[S.sec_clr[i]], 0); rt_cover (CV_TOGGLE); }
		if (S.sec_set[i] >= 0) { S.var[S.sec_set[i]] = 1; sc_set (&S.varsh[S.sec_set[i]], 1); }
		rt_ev (0x900u + (uint32_t) (S.sec_set[i] + 1) + ((uint32_t) (S.sec_clr[i] + 1) << 4));
		if (S.releaser && S.drv_endwait[i]) {
			/* end the section by waiting: the release inside nsync_mu_wait must wake the waiters of var[] just as an unlock would */
			S.rel = 0;
			rt_cover (CV_ENDWAIT);
			sc_set (&S.driver_waiting, 1);
			leave (1);
			RT_OP ("nsync_mu_wait", nsync_mu_wait (&S.mu, &is_set, &S.rel, NULL));
			enter (1, "nsync_mu_wait");
			sc_set (&S.driver_waiting, 0);
		}
		leave (1);
		RT_OP ("nsync_mu_unlock", nsync_mu_unlock (&S.mu));
		if (!S.releaser && S.drv_check[i]) quiescence_check ("after a driver section");
	}
	if (!S.releaser) quiescence_check ("after the last driver section");
	else { sc_set (&S.driver_done, 1); return; }     /* the releaser performs the remaining checks and the clean-up */
	RT_OP ("nsync_note_notify", nsync_note_notify (S.note));
	RT_OP ("nsync_cv_broadcast", nsync_cv_broadcast (&S.cv));
}

/* releaser / controller of rounds in which the driver ends sections by waiting */
static void releaser (void) {
	int t;
	for (;;) {
		int pending = 0;
		rt_wait_quiescent ();
		rt_cover (CV_QCHECKS);
		for (t = 1; t <= S.nw; t++) {
			int k = sc_get (&S.waiting_on[t]);
			if (k >= 0 && sc_get (&S.varsh[k]) && rt_thread_blocked (t))
				rt_violation ("cond-true-asleep", rt_thread_op (t), "waiter %d (%s, %s mode) is asleep although its condition var[%d] is true, the section that made it true has released the mutex (%s) and nothing else can run (mutex word %#x)",
					      t, rt_thread_op (t), S.w[t].reader ? "read" : "write", k, sc_get (&S.driver_waiting) ? "by waiting in nsync_mu_wait" : "by nsync_mu_unlock", sc_word (&S.mu.word));
			if (!rt_thread_done (t)) pending = 1;
		}
		if (sc_get (&S.driver_waiting)) {
			RT_OP ("nsync_mu_lock", nsync_mu_lock (&S.mu)); enter (1, "nsync_mu_lock"); S.rel = 1; leave (1); RT_OP ("nsync_mu_unlock", nsync_mu_unlock (&S.mu));
			continue;
		}
		if (sc_get (&S.driver_done) && !pending) break;
		if (sc_get (&S.driver_done) && pending) {
			/* every variable is true and the driver has finished, yet a waiter is neither done nor caught above: it sleeps on the mutex itself */
			rt_violation ("deadlock", "after-last-section", "nothing can run, the driver has finished and every variable is true, but a waiter has not returned (mutex word %#x)", sc_word (&S.mu.word));
		}
		/* quiescent while the driver is neither waiting nor done: it is asleep in a lock acquisition that nobody will satisfy */
		rt_violation ("deadlock", "driver-asleep", "nothing can run and the driver is asleep outside its release wait (mutex word %#x)", sc_word (&S.mu.word));
	}
	sc_set (&S.driver_done, 2);
	RT_OP ("nsync_note_notify", nsync_note_notify (S.note));
	RT_OP ("nsync_cv_broadcast", nsync_cv_broadcast (&S.cv));
}

static void body (int tid) {
	if (tid == 0) driver ();
	else if (tid == S.releaser) releaser ();
	else if (tid <= S.nw) waiter (tid);
	else if (tid == S.traffic) traffic (tid);
	else cvtraffic (tid);
}

static int setup (uint64_t seed) {
	int i, t, maxw = (int) rt_param ("maxwaiters", rt_mode_b () ? 4 : 5), fn_major = (int) rt_rand_n (2);
	(void) seed;
	nsync_mu_init (&S.mu); nsync_cv_init (&S.cv);
	S.note = nsync_note_new (NULL, nsync_time_no_deadline);
	memset (S.var, 0, sizeof (S.var)); memset (S.varsh, 0, sizeof (S.varsh));
	S.W = S.R = 0;
	S.nw = 2 + (int) rt_rand_n ((unsigned) (maxw - 1));
	for (t = 0; t < RT_MAXT; t++) S.waiting_on[t] = -1;
	for (t = 1; t <= S.nw; t++) {
		struct wspec *w = &S.w[t];
		unsigned r = rt_rand_n (100);
		w->reader = (int) rt_rand_n (2);
		w->var = (int) rt_rand_n (NV);
		/* favour "same function, different argument" neighbours */
		w->fkind = r < 65 ? fn_major : r < 80 ? 1 - fn_major : 2;
		w->timed = rt_rand_n (3) == 0;
		w->dl_ns = rt_mode_b () ? (int) rt_rand_n (200) * 50 : (int) rt_rand_n (200000);
		w->note = rt_rand_n (8) == 0;
		w->second = rt_rand_n (4) == 0;
		w->var2 = (int) rt_rand_n (NV);
		w->fkind2 = (int) rt_rand_n (3);
		for (i = 0; i < NV; i++) S.al[t][i].p = &S.var[i];
		rt_ev ((uint32_t) (w->reader | w->var << 1 | w->fkind << 3 | w->timed << 5 | w->note << 6 | w->second << 7 | w->var2 << 8 | w->dl_ns << 12));
	}
	for (t = 1; t < S.nw; t++) if (S.w[t].fkind == S.w[t + 1].fkind && S.w[t].var != S.w[t + 1].var) { rt_cover (CV_SAMEFN_DIFFARG); break; }
	S.nthreads = 1 + S.nw;
	S.traffic = S.cvtraffic = 0; S.releaser = 0; S.rel = 0; S.driver_waiting = 0; S.driver_done = 0;
	if (rt_rand_n (3) == 0 && S.nthreads < rt_scen.max_threads) S.releaser = S.nthreads++;
	if (rt_rand_n (3) == 0 && S.nthreads < rt_scen.max_threads) S.traffic = S.nthreads++;
	if (rt_rand_n (3) == 0 && S.nthreads < rt_scen.max_threads) S.cvtraffic = S.nthreads++;
	{
		int order[NV], cur[NV], toggle = (rt_rand_n (3) == 0);
		for (i = 0; i < NV; i++) { order[i] = i; cur[i] = 0; }
		for (i = NV - 1; i > 0; i--) { int j = (int) rt_rand_n ((unsigned) i + 1), x = order[i]; order[i] = order[j]; order[j] = x; }
		S.nsec = 0;
		for (i = 0; i < NV; i++) {
			S.sec_set[S.nsec] = order[i]; S.sec_clr[S.nsec] = -1; S.drv_gaps[S.nsec] = -1; S.nsec++;
			cur[order[i]] = 1;
			if (toggle && S.nsec < MAXS - NV && rt_rand_n (2)) {
				/* barging section: the variable just made true (or another true one) becomes false again, maybe another becomes true */
				int a = rt_rand_n (3) ? order[i] : order[rt_rand_n ((unsigned) i + 1)], b = (int) rt_rand_n (NV + 1) - 1;
				if (cur[a]) {
					if (b == a) b = -1;
					S.sec_set[S.nsec] = b; S.sec_clr[S.nsec] = a; S.drv_gaps[S.nsec] = rt_rand_n (3) ? 0 : -1; S.nsec++;
					cur[a] = 0; if (b >= 0) cur[b] = 1;
				}
			}
		}
		for (i = 0; i < NV; i++) if (!cur[i]) { S.sec_set[S.nsec] = i; S.sec_clr[S.nsec] = -1; S.drv_gaps[S.nsec] = -1; S.nsec++; }
	}
	S.drv_notify = (int) rt_rand_n ((unsigned) S.nsec + 2);
	for (i = 0; i < S.nsec; i++) {
		int barge = (S.drv_gaps[i] == 0);     /* straight after the previous section: no gap, no other section in between */
		S.drv_gaps[i] = barge ? 0 : (int) rt_rand_n (4); S.drv_read[i] = barge ? 0 : (int) rt_rand_n (2); S.drv_nowake[i] = barge ? 0 : rt_rand_n (4) == 0; S.drv_try[i] = barge ? 0 : rt_rand_n (4) == 0;
		S.drv_check[i] = rt_mode_b () ? (int) rt_rand_n (2) : (rt_rand_n (10) == 0);
		S.drv_endwait[i] = S.releaser ? (int) rt_rand_n (2) : 0;
		rt_ev ((uint32_t) ((S.sec_set[i] + 1) | S.drv_gaps[i] << 2 | S.drv_read[i] << 4 | S.drv_nowake[i] << 5 | S.drv_try[i] << 6 | S.drv_check[i] << 7 | (S.sec_clr[i] + 1) << 8));
	}
	rt_watch_word (0, &S.mu.word, &word_cb);
	return (S.nthreads);
}

static void check (void) {
	if (sc_get (&S.W) != 0 || sc_get (&S.R) != 0) rt_fatal ("shadow counters not zero at round end");
	if ((sc_word (&S.mu.word) & (SC_MU_ANY_LOCK | 2u)) != 0) rt_violation ("final-word", "held", "after every thread finished the mutex word is %#x", sc_word (&S.mu.word));
}
static void teardown (void) { rt_watch_word (0, NULL, NULL); nsync_note_free (S.note); }

static void describe (FILE *f) {
	int t, i;
	fprintf (f, "{\"waiters\":[");
	for (t = 1; t <= S.nw; t++) {
		const struct wspec *w = &S.w[t];
		fprintf (f, "%s\"%s var%d fn%d%s%s%s\"", t > 1 ? "," : "", w->reader ? "R" : "W", w->var, w->fkind, w->timed ? " timed" : "", w->note ? " note" : "", w->second ? " +second" : "");
	}
	fprintf (f, "],\"driver_order\":[");
	for (i = 0; i < S.nsec; i++) fprintf (f, "%s\"set%d clr%d%s%s%s%s\"", i ? "," : "", S.sec_set[i], S.sec_clr[i], S.drv_read[i] ? " rsec" : "", S.drv_nowake[i] ? " nowake-sec" : "", S.drv_try[i] ? " try" : "", S.drv_check[i] ? " qcheck" : "");
	fprintf (f, "],\"traffic\":%d,\"cvtraffic\":%d}", S.traffic != 0, S.cvtraffic != 0);
}
static void dump_state (FILE *f) {
	int t;
	fprintf (f, "{\"mu_word\":\"%#x\",\"var\":[%d,%d,%d],\"waiting_on\":[", sc_word (&S.mu.word), S.var[0], S.var[1], S.var[2]);
	for (t = 0; t < S.nthreads; t++) fprintf (f, "%s%d", t ? "," : "", S.waiting_on[t]);
	fprintf (f, "]}");
}
static void pinit (void) {
	rt_cover_name (CV_WAITS, "conditional_waits"); rt_cover_name (CV_SLEPT, "waits_that_slept"); rt_cover_name (CV_TIMEDOUT, "waits_timedout");
	rt_cover_name (CV_CANCELLED, "waits_cancelled"); rt_cover_name (CV_EVALS, "condition_evaluations"); rt_cover_name (CV_QCHECKS, "quiescence_checks");
	rt_cover_name (CV_NOWAKE, "unlock_without_wakeup"); rt_cover_name (CV_READER_WAITS, "reader_mode_waits"); rt_cover_name (CV_SAMEFN_DIFFARG, "rounds_with_same_fn_diff_arg_neighbours");
	rt_cover_name (CV_EQ_ARGS, "waits_with_condition_arg_eq"); rt_cover_name (CV_DRV_SLEPT, "driver_acquisitions_that_slept"); rt_cover_name (CV_ENDWAIT, "driver_sections_ended_by_waiting"); rt_cover_name (CV_IDLE, "idle_instants_checked"); rt_cover_name (CV_TOGGLE, "driver_sections_that_made_a_variable_false_again");
}
rt_scenario rt_scen = { "cond_rounds", "C06", 8, &pinit, &setup, &body, &check, &teardown, &describe, NULL, &dump_state, NULL, &idle_check };
