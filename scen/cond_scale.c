/* cond_scale: C06 with a LONG queue -- many conditional waiters with distinct conditions on one mutex.

   Threads 1..N (N = 20..44) each call nsync_mu_wait (reader or writer mode, a few with a far deadline) on their own
   flag: same function with different arguments (N distinct condition groups), every fifth through a second function,
   a few pairs sharing one flag.  Thread 0 is the driver: once everybody is queued (quiescence) it sets the flags in a
   random order, one to three per write section that ends with nsync_mu_unlock, with read sections and sections that
   change nothing (nsync_mu_unlock_without_wakeup) in between, and after every section that set a flag it waits for
   quiescence: every waiter of a flag that is now true must have returned.  The waiter whose flag is set first is as
   often as not the LAST in the queue, behind dozens of false conditions.

   Oracles: cond-true-asleep (a waiter of a true flag still asleep at quiescence, mutex free); every thread finishes;
   nsync_mu_wait returns only with its flag true; conditions are evaluated only while the mutex word shows a holder.  */
#include "sc.h"

#define MAXW 44
static struct {
	nsync_mu mu;
	int flag[MAXW + 1];             /* PLAIN, protected by mu */
	int flagsh[MAXW + 1];           /* relaxed shadow for oracles that run outside the mutex */
	int N, flag_of[MAXW + 1], reader[MAXW + 1], fn2[MAXW + 1], timed[MAXW + 1];
	int order[MAXW + 1], norder;
	int W;
} S;
enum { CV_WAITS = 0, CV_SLEPT, CV_EVALS, CV_QCHECKS, CV_SECTIONS, CV_MAXQUEUE };

static void cond_ctx (void) {
	rt_cover (CV_EVALS);
	if ((sc_word (&S.mu.word) & SC_MU_ANY_LOCK) == 0) rt_violation ("cond-unheld", "callback", "a wait condition was evaluated while the mutex word %#x shows no holder", sc_word (&S.mu.word));
	if (sc_get (&S.W) != 0) rt_violation ("cond-during-write", "callback", "a wait condition was evaluated while another thread is inside a write section");
}
static int is_set (const void *v) { cond_ctx (); return (*(const int *) v != 0); }
static int is_set2 (const void *v) { cond_ctx (); return (*(const int *) v != 0); }

static void waiter (int t) {
	int k = S.flag_of[t], r = 0;
	if (S.reader[t]) RT_OP ("nsync_mu_rlock", nsync_mu_rlock (&S.mu)); else RT_OP ("nsync_mu_lock", nsync_mu_lock (&S.mu));
	rt_cover (CV_WAITS);
	if (S.timed[t]) RT_OP ("nsync_mu_wait_with_deadline", r = nsync_mu_wait_with_deadline (&S.mu, S.fn2[t] ? &is_set2 : &is_set, &S.flag[k], NULL, rt_deadline_in (1000000000ll * 100000ll), NULL));
	else RT_OP ("nsync_mu_wait", nsync_mu_wait (&S.mu, S.fn2[t] ? &is_set2 : &is_set, &S.flag[k], NULL));
	if (rt_op_sleeps ()) { rt_cover (CV_SLEPT); rt_mark_nontrivial (); }
	if (r != 0) rt_violation ("muwait-result", "nsync_mu_wait_with_deadline", "a wait with a deadline 100000 s away returned %d", r);
	if (!S.flag[k]) rt_violation ("muwait-result", "nsync_mu_wait", "nsync_mu_wait returned but its condition is false");
	if (nsync_mu_is_reader (&S.mu) != S.reader[t]) rt_violation ("mode", "nsync_mu_wait", "nsync_mu_wait returned holding the mutex in the wrong mode");
	rt_ev (0x200u + (uint32_t) t);
	if (S.reader[t]) RT_OP ("nsync_mu_runlock", nsync_mu_runlock (&S.mu)); else RT_OP ("nsync_mu_unlock", nsync_mu_unlock (&S.mu));
}

static void qcheck (const char *when) {
	int t;
	rt_wait_quiescent ();
	rt_cover (CV_QCHECKS);
	for (t = 1; t <= S.N; t++)
		if (sc_get (&S.flagsh[S.flag_of[t]]) && !rt_thread_done (t) && rt_thread_blocked (t))
			rt_violation ("cond-true-asleep", rt_thread_op (t), "%s: waiter %d of %d (%s mode) is asleep although its flag was made true by a section that ended with nsync_mu_unlock and nothing else can run (mutex word %#x)",
				      when, t, S.N, S.reader[t] ? "read" : "write", sc_word (&S.mu.word));
}

static void driver (void) {
	int i = 0, queued = 0, t;
	rt_wait_quiescent ();       /* everybody queued */
	for (t = 1; t <= S.N; t++) if (rt_thread_blocked (t)) queued++;
	if (queued > 0) rt_cover_add (CV_MAXQUEUE, queued > 32 ? 1 : 0);
	while (i < S.norder) {
		int n = 1 + (int) rt_rand_n (3), j;
		if (rt_rand_n (3) == 0) { RT_OP ("nsync_mu_rlock", nsync_mu_rlock (&S.mu)); rt_point ("drv-rsec"); RT_OP ("nsync_mu_runlock", nsync_mu_runlock (&S.mu)); }
		if (rt_rand_n (4) == 0) { RT_OP ("nsync_mu_lock", nsync_mu_lock (&S.mu)); rt_point ("drv-nochange"); RT_OP ("nsync_mu_unlock_without_wakeup", nsync_mu_unlock_without_wakeup (&S.mu)); }
		RT_OP ("nsync_mu_lock", nsync_mu_lock (&S.mu));
		sc_inc (&S.W);
		for (j = 0; j < n && i < S.norder; j++, i++) { S.flag[S.order[i]] = 1; sc_set (&S.flagsh[S.order[i]], 1); rt_ev (0x900u + (uint32_t) S.order[i]); }
		sc_dec (&S.W);
		rt_cover (CV_SECTIONS);
		RT_OP ("nsync_mu_unlock", nsync_mu_unlock (&S.mu));
		if (rt_rand_n (2) || i >= S.norder) qcheck ("after a driver section");
	}
}
static void body (int tid) { if (tid == 0) driver (); else waiter (tid); }

static int setup (uint64_t seed) {
	int t, i, maxw = (int) rt_param ("maxwaiters", MAXW), minw = (int) rt_param ("minwaiters", 20);
	(void) seed;
	nsync_mu_init (&S.mu);
	S.W = 0;
	if (maxw > MAXW) maxw = MAXW;
	if (minw > maxw) minw = maxw;
	S.N = minw + (int) rt_rand_n ((unsigned) (maxw - minw + 1));
	for (t = 0; t <= MAXW; t++) { S.flag[t] = 0; S.flagsh[t] = 0; }
	for (t = 1; t <= S.N; t++) {
		S.flag_of[t] = (t > 1 && rt_rand_n (10) == 0) ? S.flag_of[t - 1] : t;
		S.reader[t] = rt_rand_n (3) == 0;
		S.fn2[t] = (t % 5 == 0);
		S.timed[t] = (rt_rand_n (8) == 0) && rt_mode_b ();   /* Mode A's quiescence detector never counts a timed sleeper as settled */
		rt_ev ((uint32_t) (S.flag_of[t] | S.reader[t] << 8 | S.timed[t] << 9));
	}
	/* order in which flags become true: a random permutation; in half of the rounds the highest-numbered flag
	   (whose waiter is likely to be deep in the queue) goes first */
	S.norder = 0;
	for (t = 1; t <= S.N; t++) if (S.flag_of[t] == t) S.order[S.norder++] = t;
	for (i = S.norder - 1; i > 0; i--) { int j = (int) rt_rand_n ((unsigned) i + 1), x = S.order[i]; S.order[i] = S.order[j]; S.order[j] = x; }
	if (rt_rand_n (2)) { int best = 0; for (i = 1; i < S.norder; i++) if (S.order[i] > S.order[best]) best = i; i = S.order[0]; S.order[0] = S.order[best]; S.order[best] = i; }
	return (S.N + 1);
}
static void check (void) { if ((sc_word (&S.mu.word) & (SC_MU_ANY_LOCK | 2u)) != 0) rt_violation ("final-word", "held", "after every thread finished the mutex word is %#x", sc_word (&S.mu.word)); }
static void describe (FILE *f) { int i; fprintf (f, "{\"waiters\":%d,\"flags_set_in_order\":[", S.N); for (i = 0; i < S.norder && i < 12; i++) fprintf (f, "%s%d", i ? "," : "", S.order[i]); fprintf (f, "%s]}", S.norder > 12 ? ",\"...\"" : ""); }
static void dump_state (FILE *f) { int t; fprintf (f, "{\"mu_word\":\"%#x\",\"true_flags\":[", sc_word (&S.mu.word)); for (t = 1; t <= S.N; t++) if (S.flagsh[t]) fprintf (f, "%d,", t); fprintf (f, "0]}"); }
static void pinit (void) {
	rt_cover_name (CV_WAITS, "conditional_waits"); rt_cover_name (CV_SLEPT, "waits_that_slept"); rt_cover_name (CV_EVALS, "condition_evaluations"); rt_cover_name (CV_QCHECKS, "quiescence_checks");
	rt_cover_name (CV_SECTIONS, "driver_sections_that_set_flags"); rt_cover_name (CV_MAXQUEUE, "rounds_with_more_than_32_waiters_queued");
}
rt_scenario rt_scen = { "cond_scale", "C06", MAXW + 1, &pinit, &setup, &body, &check, NULL, &describe, NULL, &dump_state, NULL, NULL };
