/* counter: C10 -- nsync_counter is atomic and releases its waiters exactly at zero.

   Two kinds of rounds.
   MONOTONE (type 0): phase 1: every thread adds +1 a few times, mixed with value() and add(0)
   reads (nobody has waited yet, so increments are legal); harness barrier; phase 2: the
   threads issue exactly as many -1 as the counter holds, mixed with reads and timed waits,
   and each thread ends with an untimed nsync_counter_wait or nsync_wait_n on the counter.
   In a monotone phase every add returns a distinct value, so the linearization is read off
   the results: they must be exactly the expected set, ordered consistently with real time;
   a read of v must overlap the period in which v can have been held.
   MIXED (type 1): at most 12 operations, random +1/-1/value/add(0), no waits; checked by an
   exhaustive linearization search against an integer (Wing-Gong with memoization).
   Wait oracle: result 0 only if the zeroing add started before the wait returned; non-zero
   only at/after the deadline; a wait started after zero does not sleep; every thread
   finishes (deadlock rule: all waiters released at zero).  */
#include "sc.h"

#define MAXOPS 24
#define MAXLOG 64
enum { K_INC, K_DEC, K_VALUE, K_ADD0, K_WAIT_T, K_WAIT_U, K_WAITN_U };
static const char *const kname[] = { "add(+1)", "add(-1)", "value", "add(0)", "wait(timed)", "wait", "wait_n" };
struct ev { int kind, phase; uint32_t res; uint64_t call, ret; int64_t dl_ns, at_ns; unsigned sleeps; };
static struct {
	nsync_counter c;
	int type, nthreads;
	uint32_t v0;
	int nops[2][RT_MAXT]; int ops[2][RT_MAXT][MAXOPS]; int dl[2][RT_MAXT][MAXOPS];
	struct ev log[RT_MAXT][MAXLOG]; int nlog[RT_MAXT];
	int barrier_count;
	int zeroed;                 /* an nsync_counter_add that returned 0 has RETURNED */
	int in_wait[RT_MAXT];       /* the thread is inside nsync_counter_wait / nsync_wait_n on the counter */
} S;
enum { CV_ADDS = 0, CV_READS, CV_WAITS_ZERO, CV_WAITS_TIMEOUT, CV_WAIT_SLEPT, CV_LATE_WAITS, CV_MIXED_ROUNDS, CV_LIN_STATES, CV_IDLE };

static struct ev *lb (int tid, int kind, int phase) {
	struct ev *e;
	if (S.nlog[tid] >= MAXLOG) rt_fatal ("log overflow");
	e = &S.log[tid][S.nlog[tid]++]; memset (e, 0, sizeof (*e)); e->kind = kind; e->phase = phase; e->call = rt_stamp ();
	return (e);
}
static void le (struct ev *e, uint32_t res) { e->res = res; e->sleeps = rt_op_sleeps (); e->at_ns = rt_now_ns (); e->ret = rt_stamp (); rt_ev ((uint32_t) (e->kind << 8) | (res & 0xff)); }

static void do_op (int tid, int kind, int phase, int dl_ns) {
	struct ev *e = lb (tid, kind, phase); uint32_t r = 0;
	if (kind >= K_WAIT_T) sc_set (&S.in_wait[tid], 1);
	switch (kind) {
	case K_INC: RT_OP ("nsync_counter_add", r = nsync_counter_add (S.c, 1)); rt_cover (CV_ADDS); break;
	case K_DEC: RT_OP ("nsync_counter_add", r = nsync_counter_add (S.c, -1)); rt_cover (CV_ADDS); if (r == 0 && S.type == 0) sc_set (&S.zeroed, 1); break;
	case K_VALUE: RT_OP ("nsync_counter_value", r = nsync_counter_value (S.c)); rt_cover (CV_READS); break;
	case K_ADD0: RT_OP ("nsync_counter_add", r = nsync_counter_add (S.c, 0)); rt_cover (CV_READS); break;
	case K_WAIT_T: { nsync_time d = rt_deadline_in (dl_ns); e->dl_ns = rt_ts_ns (d); RT_OP ("nsync_counter_wait", r = nsync_counter_wait (S.c, d)); break; }
	case K_WAIT_U: RT_OP ("nsync_counter_wait", r = nsync_counter_wait (S.c, nsync_time_no_deadline)); break;
	default: { struct nsync_waitable_s w; struct nsync_waitable_s *pw = &w; int i; w.v = S.c; w.funcs = &nsync_counter_waitable_funcs;
		RT_OP ("nsync_wait_n", i = nsync_wait_n (NULL, NULL, NULL, nsync_time_no_deadline, 1, &pw)); r = (uint32_t) i; break; }
	}
	sc_set (&S.in_wait[tid], 0);
	le (e, r);
	if (kind >= K_WAIT_T && e->sleeps) { rt_cover (CV_WAIT_SLEPT); rt_mark_nontrivial (); }
}

/* Mode B idle oracle: nothing is runnable, only deadlines are pending.  Once the add that zeroed the counter has returned,
   every waiter has been released: none may still be asleep, not even one whose own deadline would rescue it later.  */
static void idle_check (void) {
	int t;
	rt_cover (CV_IDLE);
	if (!sc_get (&S.zeroed)) return;
	for (t = 0; t < S.nthreads; t++) if (rt_thread_blocked (t) && sc_get (&S.in_wait[t]))
		rt_violation ("counter-wait", "asleep-at-zero", "idle instant (only deadlines pending): the add that zeroed the counter has returned, yet thread %d is still asleep in %s%s", t, rt_thread_op (t), rt_thread_timed (t) ? " (its own deadline would rescue it later)" : "");
}

static void barrier (void) {
	int spins = 0;
	__atomic_fetch_add (&S.barrier_count, 1, __ATOMIC_ACQ_REL);
	while (__atomic_load_n (&S.barrier_count, __ATOMIC_ACQUIRE) < S.nthreads) { rt_yield (); if (!rt_mode_b () && (++spins & 63) == 0) rt_sleep_us (20); if (spins > 50000000) rt_fatal ("barrier stuck"); }
}

static void body (int tid) {
	int i;
	for (i = 0; i < S.nops[0][tid]; i++) { do_op (tid, S.ops[0][tid][i], 0, S.dl[0][tid][i]); rt_point ("gap"); }
	if (S.type == 0) {
		barrier ();
		for (i = 0; i < S.nops[1][tid]; i++) { do_op (tid, S.ops[1][tid][i], 1, S.dl[1][tid][i]); rt_point ("gap"); }
	}
}

static int setup (uint64_t seed) {
	int t, i, total_inc = 0, D, nread;
	(void) seed;
	memset (S.nops, 0, sizeof (S.nops)); memset (S.nlog, 0, sizeof (S.nlog)); S.barrier_count = 0; S.zeroed = 0; memset (S.in_wait, 0, sizeof (S.in_wait));
	S.nthreads = 2 + (int) rt_rand_n (3);
	S.type = rt_rand_n (4) == 0;
	if (S.type == 1) {
		int budget = 12, ndec = 0;
		rt_cover (CV_MIXED_ROUNDS);
		if (S.nthreads > 3) S.nthreads = 3;
		for (t = 0; t < S.nthreads; t++) { int n = 2 + (int) rt_rand_n (3); if (n > budget) n = budget; budget -= n; S.nops[0][t] = n;
			for (i = 0; i < n; i++) { unsigned r = rt_rand_n (10); int k = r < 3 ? K_INC : r < 6 ? K_DEC : r < 8 ? K_VALUE : K_ADD0; S.ops[0][t][i] = k; if (k == K_DEC) ndec++; rt_ev ((uint32_t) k); } }
		S.v0 = (uint32_t) ndec + rt_rand_n (2);
	} else {
		S.v0 = 1 + rt_rand_n (3);
		for (t = 0; t < S.nthreads; t++) { int n = 0, u = (int) rt_rand_n (4); nread = (int) rt_rand_n (3);
			for (i = 0; i < u; i++) S.ops[0][t][n++] = K_INC;
			for (i = 0; i < nread; i++) S.ops[0][t][n++] = rt_rand_n (2) ? K_VALUE : K_ADD0;
			for (i = n - 1; i > 0; i--) { int j = (int) rt_rand_n ((unsigned) i + 1), x = S.ops[0][t][i]; S.ops[0][t][i] = S.ops[0][t][j]; S.ops[0][t][j] = x; }
			S.nops[0][t] = n; total_inc += u; }
		D = (int) S.v0 + total_inc;
		for (t = 0; t < S.nthreads; t++) { int n = 0, d = (t == S.nthreads - 1) ? D : (int) rt_rand_n ((unsigned) (D < 4 ? D + 1 : 4)); if (d > D) d = D; if (d > 5) { if (t == S.nthreads - 1) { /* spread the rest */ } }
			D -= d;
			for (i = 0; i < d && n < MAXOPS - 3; i++) S.ops[1][t][n++] = K_DEC;
			D += d - i;   /* what did not fit goes to later threads */
			if (rt_rand_n (2)) S.ops[1][t][n++] = rt_rand_n (2) ? K_VALUE : K_ADD0;
			if (rt_rand_n (3) == 0) { S.dl[1][t][n] = rt_mode_b () ? (int) rt_rand_n (4000) : (int) rt_rand_n (150000); S.ops[1][t][n++] = K_WAIT_T; }
			/* keep all decrements before the final untimed wait, reads and timed waits anywhere before it */
			for (i = n - 1; i > 0; i--) { int j = (int) rt_rand_n ((unsigned) i + 1), x = S.ops[1][t][i], y = S.dl[1][t][i]; S.ops[1][t][i] = S.ops[1][t][j]; S.dl[1][t][i] = S.dl[1][t][j]; S.ops[1][t][j] = x; S.dl[1][t][j] = y; }
			S.ops[1][t][n++] = rt_rand_n (3) == 0 ? K_WAITN_U : K_WAIT_U;
			S.nops[1][t] = n; }
		if (D > 0) {   /* leftovers (only if a thread's program was full): give them to thread 0 before its final wait */
			int n = S.nops[1][0]; int last = S.ops[1][0][n - 1]; n--; while (D > 0 && n < MAXOPS - 1) { S.ops[1][0][n++] = K_DEC; D--; } S.ops[1][0][n++] = last; S.nops[1][0] = n;
			if (D > 0) rt_fatal ("could not place all decrements");
		}
		for (t = 0; t < S.nthreads; t++) for (i = 0; i < S.nops[1][t]; i++) rt_ev ((uint32_t) (S.ops[1][t][i] + 16 * t));
	}
	S.c = nsync_counter_new (S.v0);
	rt_ev (S.v0 | (uint32_t) S.type << 8);
	return (S.nthreads);
}

/* ---- checks ---- */
static struct ev *E[RT_MAXT * MAXLOG]; static int NE;

static void check_monotone_phase (int phase, uint32_t start, int dir) {
	/* dir=+1: adds produce start+1..start+n ; dir=-1: start-1..start-n */
	struct ev *prod[256]; int n = 0, i, j;
	memset (prod, 0, sizeof (prod));
	for (i = 0; i < NE; i++) if (E[i]->phase == phase && (E[i]->kind == K_INC || E[i]->kind == K_DEC)) n++;
	for (i = 0; i < NE; i++) {
		struct ev *e = E[i]; int64_t off;
		if (e->phase != phase || !(e->kind == K_INC || e->kind == K_DEC)) continue;
		off = dir > 0 ? (int64_t) e->res - start : (int64_t) start - e->res;
		if (off < 1 || off > n) rt_violation ("counter-atomicity", "out-of-range", "phase %d: %s returned %u; with start value %u and %d such adds every result must lie within %d of it", phase, kname[e->kind], e->res, start, n, n);
		if (prod[off]) rt_violation ("counter-atomicity", "duplicate", "phase %d: two %s calls returned the same value %u (a lost update)", phase, kname[e->kind], e->res);
		prod[off] = e;
	}
	for (i = 1; i <= n; i++) for (j = 1; j <= n; j++) if (prod[i] && prod[j] && prod[i]->ret < prod[j]->call && i > j)
		rt_violation ("counter-atomicity", "real-time-order", "phase %d: an add that returned %u completed before the add that returned %u started", phase, prod[i]->res, prod[j]->res);
	/* reads */
	for (i = 0; i < NE; i++) {
		struct ev *e = E[i]; int64_t off; struct ev *me_, *nx;
		if (e->phase != phase || !(e->kind == K_VALUE || e->kind == K_ADD0 || (e->kind == K_WAIT_T && e->res != 0))) continue;
		off = dir > 0 ? (int64_t) e->res - start : (int64_t) start - e->res;
		if (off < 0 || off > n) rt_violation ("counter-value", "never-held", "phase %d: %s reported %u, a value the counter never held (start %u, %d adds)", phase, kname[e->kind], e->res, start, n);
		me_ = off >= 1 ? prod[off] : NULL; nx = off + 1 <= n ? prod[off + 1] : NULL;
		if (me_ && me_->call > e->ret) rt_violation ("counter-value", "from-the-future", "phase %d: %s reported %u before the add that produced it had started", phase, kname[e->kind], e->res);
		if (nx && nx->ret < e->call) rt_violation ("counter-value", "stale", "phase %d: %s reported %u although the add that replaced it had already returned before the read started", phase, kname[e->kind], e->res);
	}
}

static int lin_n; static struct ev *lin_ops[16]; static unsigned char *lin_seen; static long lin_states;
static int lin_search (unsigned done, int64_t cur) {
	int i, j; size_t key;
	if (done == (1u << lin_n) - 1) return (1);
	key = (size_t) done * 64 + (size_t) (cur & 63);
	if (lin_seen[key]) return (0);
	lin_seen[key] = 1; lin_states++;
	for (i = 0; i < lin_n; i++) {
		struct ev *e = lin_ops[i]; int minimal = 1; int64_t nv = cur;
		if (done & (1u << i)) continue;
		for (j = 0; j < lin_n; j++) if (j != i && !(done & (1u << j)) && lin_ops[j]->ret < e->call) { minimal = 0; break; }
		if (!minimal) continue;
		if (e->kind == K_INC) nv = cur + 1; else if (e->kind == K_DEC) nv = cur - 1;
		if (nv < 0 || (uint32_t) nv != e->res) continue;
		if (lin_search (done | (1u << i), nv)) return (1);
	}
	return (0);
}

static void check (void) {
	int t, k, i; uint64_t zero_call = 0, zero_ret = 0; int have_zero = 0;
	NE = 0;
	for (t = 0; t < S.nthreads; t++) for (k = 0; k < S.nlog[t]; k++) E[NE++] = &S.log[t][k];
	if (S.type == 1) {
		int64_t fin = S.v0;
		lin_n = 0;
		for (i = 0; i < NE; i++) { lin_ops[lin_n++] = E[i]; if (E[i]->kind == K_INC) fin++; if (E[i]->kind == K_DEC) fin--; }
		lin_seen = (unsigned char *) calloc ((size_t) 64 << lin_n, 1); lin_states = 0;
		if (!lin_search (0, S.v0)) {
			char buf[700]; int n = 0;
			for (i = 0; i < NE && n < 600; i++) n += snprintf (buf + n, sizeof (buf) - (size_t) n, "%s->%u[%llu,%llu] ", kname[E[i]->kind], E[i]->res, (unsigned long long) E[i]->call, (unsigned long long) E[i]->ret);
			rt_violation ("counter-linearizability", "no-linearization", "no sequential order of the %d operations, consistent with their real-time order, explains the results from initial value %u: %s", lin_n, S.v0, buf);
		}
		rt_cover_add (CV_LIN_STATES, lin_states);
		free (lin_seen);
		if ((int64_t) nsync_counter_value (S.c) != fin) rt_violation ("counter-atomicity", "final-value", "final value %u differs from the initial value plus the sum of the deltas %lld", nsync_counter_value (S.c), (long long) fin);
		rt_mark_nontrivial ();
		return;
	}
	{ int ninc = 0; for (i = 0; i < NE; i++) if (E[i]->kind == K_INC) ninc++;
	  check_monotone_phase (0, S.v0, +1);
	  check_monotone_phase (1, S.v0 + (uint32_t) ninc, -1); }
	for (i = 0; i < NE; i++) if (E[i]->kind == K_DEC && E[i]->res == 0) { zero_call = E[i]->call; zero_ret = E[i]->ret; have_zero = 1; }
	if (!have_zero) rt_violation ("counter-atomicity", "never-zero", "all decrements were issued but none returned 0");
	for (i = 0; i < NE; i++) {
		struct ev *e = E[i];
		if (e->kind < K_WAIT_T) continue;
		if (e->res == 0) {
			rt_cover (CV_WAITS_ZERO);
			if (zero_call > e->ret) rt_violation ("counter-wait", "zero-too-early", "%s returned 0 before the add that zeroes the counter had started", kname[e->kind]);
			if (e->call > zero_ret) { rt_cover (CV_LATE_WAITS); if (e->sleeps) rt_violation ("counter-wait", "late-wait-blocked", "%s started after the counter had reached zero and still slept", kname[e->kind]); }
		} else {
			rt_cover (CV_WAITS_TIMEOUT);
			if (e->kind != K_WAIT_T) rt_violation ("counter-wait", "untimed-nonzero", "%s without deadline returned %u", kname[e->kind], e->res);
			if (e->at_ns < e->dl_ns) rt_violation ("counter-wait", "early-timeout", "nsync_counter_wait returned %u (not zero) at %lld ns, before its deadline %lld ns", e->res, (long long) e->at_ns, (long long) e->dl_ns);
		}
	}
	if (nsync_counter_value (S.c) != 0) rt_violation ("counter-atomicity", "final-value", "final value %u, expected 0", nsync_counter_value (S.c));
}
static void teardown (void) { nsync_counter_free (S.c); }
static void describe (FILE *f) {
	int t, i, p;
	fprintf (f, "{\"type\":\"%s\",\"initial\":%u,\"programs\":[", S.type ? "mixed" : "monotone", S.v0);
	for (t = 0; t < S.nthreads; t++) { fprintf (f, "%s\"", t ? "," : ""); for (p = 0; p < 2; p++) { for (i = 0; i < S.nops[p][t]; i++) fprintf (f, "%s ", kname[S.ops[p][t][i]]); if (p == 0 && S.type == 0) fprintf (f, "| "); } fprintf (f, "\""); }
	fprintf (f, "]}");
}
static void pinit (void) {
	rt_cover_name (CV_ADDS, "adds"); rt_cover_name (CV_READS, "reads"); rt_cover_name (CV_WAITS_ZERO, "waits_returning_zero"); rt_cover_name (CV_WAITS_TIMEOUT, "waits_timed_out");
	rt_cover_name (CV_WAIT_SLEPT, "waits_that_slept"); rt_cover_name (CV_LATE_WAITS, "waits_started_after_zero"); rt_cover_name (CV_MIXED_ROUNDS, "mixed_rounds"); rt_cover_name (CV_LIN_STATES, "linearization_search_states"); rt_cover_name (CV_IDLE, "idle_instants_checked");
}
rt_scenario rt_scen = { "counter", "C10", 4, &pinit, &setup, &body, &check, &teardown, &describe, NULL, NULL, NULL, &idle_check };
