/* cv_tokens: C04 -- condition-variable wake-ups are never lost and never swallowed by a
   timeout (token conservation), with C01/C05-style checks on every return.

   Thread 0 is the waker/controller, threads 1..k (k = 1..4) are waiters of mixed kinds:
   nsync_cv_wait, nsync_cv_wait_with_deadline (short deadline, far deadline, un-notified
   cancel note), reader mode, the generic interface with a foreign lock (then every waiter
   of the round uses it), nsync_wait_n on 1..5 objects (the cv plus counters that never
   reach zero), with and without deadline.

   Each waiter takes a ticket under the mutex and then waits, so a waker that has seen
   ticket k under the mutex knows k waiters are on the cv queue (atomic release-and-wait).
   The waker then issues s signals or one broadcast, inside the critical section (forcing
   transfers to the mutex queue), inside a READ section (the mutex is read-held: reader waiters
   are woken directly, writer waiters transferred) or after it; in a third of the rounds the
   waiters are spread over TWO condition variables of the one mutex and the waker wakes both in
   the same section.  It then waits for quiescence (exact in Mode B,
   consistent snapshot in Mode A).  Oracles at quiescence:
     broadcast:  no registered waiter is still asleep;
     signals:    if some waiter is still asleep, then at least s waiters reported a wake-up
                 (a signal is never swallowed by a waiter that then reports a timeout);
     readers:    with untimed waiters only and the first ticket a reader, one signal
                 releases every reader ticket;
   and per return: 0 / ETIMEDOUT only (ETIMEDOUT only with a deadline that has passed),
   never ECANCELED (the note is never notified), index/count for nsync_wait_n, entry mode
   preserved, exclusion.  Afterwards the waker broadcasts until everybody has returned.  */
#include "sc.h"

#define MAXW 4
enum { WK_PLAIN, WK_TIMED_SHORT, WK_TIMED_FAR, WK_NOTE, WK_WAITN, WK_WAITN_TIMED, WK_NKINDS };
static const char *const wkname[] = { "cv_wait", "cv_wait_deadline(short)", "cv_wait_deadline(far)", "cv_wait_deadline(note)", "wait_n", "wait_n(short deadline)" };
struct wspec { int kind, reader, nobj, dl_ns; };
static struct {
	nsync_mu mu; nsync_cv cvs[2]; nsync_note note; nsync_counter ctr;
	int ncv, cv_of[MAXW + 1], bcast_c[2], nsignals_c[2];
	int W, R;
	int k, foreign;
	struct wspec w[MAXW + 1];
	int ticket;                 /* protected by mu */
	int ticket_of[MAXW + 1];
	int returned[MAXW + 1];     /* 0 = not yet, 1 = wake-up, 2 = timeout */
	int nsignals, bcast, inside;
	int cleanup;
} S;
enum { CV_WAITERS = 0, CV_WOKEN, CV_TIMEDOUT, CV_SLEPT, CV_SIG_ROUNDS, CV_BCAST_ROUNDS, CV_ASLEEP_AFTER_SIGNALS, CV_RACES, CV_INSIDE, CV_READER_RULE, CV_WAITN, CV_INSIDE_R };

static void my_lock (void *m) { nsync_mu_lock ((nsync_mu *) m); }
static void my_unlock (void *m) { nsync_mu_unlock ((nsync_mu *) m); }
static void my_rlock (void *m) { nsync_mu_rlock ((nsync_mu *) m); }
static void my_runlock (void *m) { nsync_mu_runlock ((nsync_mu *) m); }

static void enter (int writer, const char *how) {
	int isr;
	if (writer) { int w = sc_inc (&S.W), r = sc_get (&S.R); if (w != 0 || r != 0) rt_violation ("exclusion", how, "writer entered via %s while %d writer(s) and %d reader(s) are inside", how, w, r); }
	else { sc_inc (&S.R); if (sc_get (&S.W) != 0) rt_violation ("exclusion", how, "reader entered via %s while a writer is inside", how); }
	isr = nsync_mu_is_reader (&S.mu);
	if (isr != !writer) rt_violation ("mode", how, "%s returned holding the mutex in %s mode, expected %s mode", how, isr ? "read" : "write", writer ? "write" : "read");
}
static void leave (int writer) { if (writer) sc_dec (&S.W); else sc_dec (&S.R); }

static void waiter (int tid) {
	const struct wspec *w = &S.w[tid];
	nsync_cv *cvp = &S.cvs[S.cv_of[tid]];
	int writer = !w->reader, res = 0, woke = 0, timed = 0, first = 1;
	nsync_time dl = nsync_time_no_deadline;
	const char *api = "nsync_cv_wait";
	if (writer) { RT_OP ("nsync_mu_lock", nsync_mu_lock (&S.mu)); enter (1, "nsync_mu_lock"); }
	else { RT_OP ("nsync_mu_rlock", nsync_mu_rlock (&S.mu)); enter (0, "nsync_mu_rlock"); }
	rt_cover (CV_WAITERS);
	for (;;) {
		if (first) {
			/* readers cannot write the ticket: they register under a tiny spin lock instead; the
			   ticket is still taken while the mutex is held, which is what the waker relies on */
			S.ticket_of[tid] = __atomic_add_fetch (&S.ticket, 1, __ATOMIC_ACQ_REL);
		}
		timed = 0; dl = nsync_time_no_deadline;
		if (first && (w->kind == WK_TIMED_SHORT || w->kind == WK_WAITN_TIMED)) { timed = 1; dl = rt_deadline_in (w->dl_ns); }
		if (first && w->kind == WK_TIMED_FAR) { timed = 1; dl = rt_deadline_in (7200ll * 1000000000ll); }
		leave (writer);
		if (w->kind == WK_WAITN || w->kind == WK_WAITN_TIMED) {
			struct nsync_waitable_s ws[5]; struct nsync_waitable_s *pw[5]; int n = 0, i, cvpos;
			for (i = 0; i + 1 < w->nobj; i++) { ws[n].v = S.ctr; ws[n].funcs = &nsync_counter_waitable_funcs; n++; }
			cvpos = n; ws[n].v = cvp; ws[n].funcs = &nsync_cv_waitable_funcs; n++;
			for (i = 0; i < n; i++) pw[i] = &ws[i];
			api = "nsync_wait_n"; rt_cover (CV_WAITN);
			RT_OP_DL (api, timed ? rt_ts_ns (dl) : 0, res = nsync_wait_n (&S.mu, writer ? &my_lock : &my_rlock, writer ? &my_unlock : &my_runlock, dl, n, pw));
			if (res == cvpos) woke = 1;
			else if (res == n) woke = 0;
			else rt_violation ("waitn-result", "counter", "nsync_wait_n returned index %d, a counter that is not zero (cv is index %d of %d)", res, cvpos, n);
			res = woke ? 0 : ETIMEDOUT;
		} else if (S.foreign) {
			api = "nsync_cv_wait_with_deadline_generic";
			RT_OP_DL (api, timed ? rt_ts_ns (dl) : 0, res = nsync_cv_wait_with_deadline_generic (cvp, &S.mu, writer ? &my_lock : &my_rlock, writer ? &my_unlock : &my_runlock, dl, first && w->kind == WK_NOTE ? S.note : NULL));
			woke = (res == 0);
		} else if (w->kind == WK_PLAIN || !first) {
			RT_OP (api, nsync_cv_wait (cvp, &S.mu)); res = 0; woke = 1;
		} else {
			api = "nsync_cv_wait_with_deadline";
			RT_OP_DL (api, timed ? rt_ts_ns (dl) : 0, res = nsync_cv_wait_with_deadline (cvp, &S.mu, dl, w->kind == WK_NOTE ? S.note : NULL));
			woke = (res == 0);
		}
		if (rt_op_sleeps ()) { rt_cover (CV_SLEPT); rt_mark_nontrivial (); }
		enter (writer, api);
		if (res == ETIMEDOUT) {
			if (!timed) rt_violation ("return-reason", api, "%s reported a timeout although no deadline was given", api);
			if (nsync_time_cmp (rt_now (), dl) < 0) rt_violation ("return-reason", api, "%s reported a timeout before its deadline", api);
		} else if (res != 0) rt_violation ("return-reason", api, "%s returned %d (the cancel note is never notified in this scenario)", api, res);
		rt_ev (0x100u | (uint32_t) (woke ? 0 : 1) | (uint32_t) tid << 4);
		if (first) { rt_cover (woke ? CV_WOKEN : CV_TIMEDOUT); __atomic_store_n (&S.returned[tid], woke ? 1 : 2, __ATOMIC_RELEASE); }
		first = 0;
		/* a waiter that timed out keeps out of the way; a woken one is done.  Both wait for the clean-up
		   phase only if they were told to (Mesa loop on the predicate "cleanup") */
		break;
	}
	leave (writer);
	if (writer) RT_OP ("nsync_mu_unlock", nsync_mu_unlock (&S.mu)); else RT_OP ("nsync_mu_runlock", nsync_mu_runlock (&S.mu));
}

static void waker (void) {
	int i, t, asleep = 0, woke = 0, tout = 0, spins = 0, all_untimed = 1, head = 0, any_waitn = 0;
	/* wait until every waiter has registered; seen under the mutex */
	for (;;) {
		int n;
		RT_OP ("nsync_mu_lock", nsync_mu_lock (&S.mu)); enter (1, "nsync_mu_lock");
		n = __atomic_load_n (&S.ticket, __ATOMIC_ACQUIRE);
		if (n >= S.k) break;
		leave (1); RT_OP ("nsync_mu_unlock", nsync_mu_unlock (&S.mu));
		rt_yield (); if (!rt_mode_b () && (++spins & 7) == 0) rt_sleep_us (10);
		if (spins > 50000000) rt_fatal ("waiters never registered");
	}
	/* mutex held; all k waiters are on their cv's queue (or already timed out) */
	if (S.inside != 1) { leave (1); RT_OP ("nsync_mu_unlock", nsync_mu_unlock (&S.mu)); } else rt_cover (CV_INSIDE);
	if (S.inside == 2) { RT_OP ("nsync_mu_rlock", nsync_mu_rlock (&S.mu)); enter (0, "nsync_mu_rlock"); rt_cover (CV_INSIDE_R); }
	{ int c;
	  for (c = 0; c < S.ncv; c++) {
		if (S.bcast_c[c]) { rt_cover (CV_BCAST_ROUNDS); RT_OP ("nsync_cv_broadcast", nsync_cv_broadcast (&S.cvs[c])); }
		else { rt_cover (CV_SIG_ROUNDS); for (i = 0; i < S.nsignals_c[c]; i++) { RT_OP ("nsync_cv_signal", nsync_cv_signal (&S.cvs[c])); rt_point ("between-signals"); } }
	  } }
	if (S.inside == 1) { rt_point ("holding"); leave (1); RT_OP ("nsync_mu_unlock", nsync_mu_unlock (&S.mu)); }
	if (S.inside == 2) { rt_point ("holding"); leave (0); RT_OP ("nsync_mu_runlock", nsync_mu_runlock (&S.mu)); }
	rt_wait_quiescent ();
	{ int c;
	  for (c = 0; c < S.ncv; c++) {
		int nreg = 0;
		asleep = woke = tout = 0; all_untimed = 1; head = 0; any_waitn = 0;
		{ int best = 1 << 30; for (t = 1; t <= S.k; t++) if (S.cv_of[t] == c && S.ticket_of[t] < best) { best = S.ticket_of[t]; head = t; } }
		for (t = 1; t <= S.k; t++) {
			int r;
			if (S.cv_of[t] != c) continue;
			nreg++;
			r = __atomic_load_n (&S.returned[t], __ATOMIC_ACQUIRE);
			if (r == 0) asleep++; else if (r == 1) woke++; else tout++;
			if (S.w[t].kind == WK_TIMED_SHORT || S.w[t].kind == WK_WAITN_TIMED) all_untimed = 0;
			if (S.w[t].kind == WK_WAITN || S.w[t].kind == WK_WAITN_TIMED) any_waitn = 1;
		}
		if (nreg == 0) continue;
		if (tout) rt_cover (CV_RACES);
		if (S.bcast_c[c]) {
			if (asleep) rt_violation ("lost-wakeup", "broadcast", "after nsync_cv_broadcast and quiescence %d of %d registered waiter(s) of the cv are still asleep (woken %d, timed out %d)", asleep, nreg, woke, tout);
		} else {
			if (asleep) rt_cover (CV_ASLEEP_AFTER_SIGNALS);
			if (asleep && woke < S.nsignals_c[c])
				rt_violation ("swallowed-signal", tout ? "timeout-race" : "signal", "%d signal(s) were issued to %d registered waiter(s); at quiescence %d reported a wake-up, %d a timeout and %d are still asleep: a signal was lost or consumed by a waiter that reported a timeout", S.nsignals_c[c], nreg, woke, tout, asleep);
			/* tickets taken by concurrent readers do not order their enqueues, but every ticket before the first
			   writer ticket is a reader, so with native waiters only and the cv's first ticket a reader the queue head is a reader */
			if (all_untimed && S.nsignals_c[c] >= 1 && head && S.w[head].reader && !S.foreign && !any_waitn) {
				rt_cover (CV_READER_RULE);
				for (t = 1; t <= S.k; t++) if (S.cv_of[t] == c && S.w[t].reader && S.w[t].kind != WK_WAITN && S.w[t].kind != WK_WAITN_TIMED && __atomic_load_n (&S.returned[t], __ATOMIC_ACQUIRE) == 0)
					rt_violation ("reader-rule", "signal", "the first waiter holds the mutex as a reader, so one signal must wake every waiting reader; reader waiter %d is still asleep", t);
			}
		}
	  } }
	/* clean-up: release whoever is still waiting */
	for (i = 0; i < 64; i++) {
		int pending = 0;
		RT_OP ("nsync_cv_broadcast", nsync_cv_broadcast (&S.cvs[0])); RT_OP ("nsync_cv_broadcast", nsync_cv_broadcast (&S.cvs[1]));
		for (t = 1; t <= S.k; t++) if (!rt_thread_done (t)) pending = 1;
		if (!pending) break;
		rt_wait_quiescent ();
	}
}
static void body (int tid) { if (tid == 0) waker (); else waiter (tid); }

static int setup (uint64_t seed) {
	int t;
	(void) seed;
	nsync_mu_init (&S.mu); nsync_cv_init (&S.cvs[0]); nsync_cv_init (&S.cvs[1]);
	S.note = nsync_note_new (NULL, nsync_time_no_deadline);
	S.ctr = nsync_counter_new (1);
	S.W = S.R = 0; S.ticket = 0; S.cleanup = 0;
	S.k = 1 + (int) rt_rand_n (MAXW);
	S.foreign = rt_rand_n (6) == 0;
	for (t = 1; t <= S.k; t++) {
		struct wspec *w = &S.w[t];
		unsigned r = rt_rand_n (100);
		w->kind = r < 30 ? WK_PLAIN : r < 50 ? WK_TIMED_SHORT : r < 58 ? WK_TIMED_FAR : r < 66 ? WK_NOTE : r < 85 ? WK_WAITN : WK_WAITN_TIMED;
		if (!rt_mode_b () && w->kind == WK_TIMED_FAR) w->kind = WK_PLAIN;     /* a far deadline would keep Mode A from ever being quiescent */
		w->reader = rt_rand_n (3) == 0;
		w->nobj = 1 + (int) rt_rand_n (5);
		w->dl_ns = rt_mode_b () ? (int) rt_rand_n (12000) : (int) rt_rand_n (300000);
		S.returned[t] = 0; S.ticket_of[t] = 0;
		rt_ev ((uint32_t) (w->kind | w->reader << 3 | w->nobj << 4 | w->dl_ns << 8));
	}
	S.bcast = rt_rand_n (3) == 0;
	S.nsignals = 1 + (int) rt_rand_n (3);
	S.inside = (int) rt_rand_n (2);
	/* two cvs on the one mutex (a third of the rounds) and wake-ups issued from inside a READ section (a quarter) */
	if (rt_rand_n (4) == 0) S.inside = 2;
	S.ncv = (rt_rand_n (3) < (S.inside == 2 ? 2u : 1u) && !S.foreign) ? 2 : 1;
	for (t = 1; t <= S.k; t++) S.cv_of[t] = S.ncv == 2 ? (int) rt_rand_n (2) : 0;
	S.bcast_c[0] = S.bcast; S.nsignals_c[0] = S.nsignals; S.bcast_c[1] = (int) rt_rand_n (2); S.nsignals_c[1] = 1 + (int) rt_rand_n (2);
	rt_ev ((uint32_t) (S.ncv | S.bcast_c[1] << 2 | S.nsignals_c[1] << 3));
	rt_ev ((uint32_t) (S.bcast | S.nsignals << 1 | S.inside << 4 | S.foreign << 5 | S.k << 6));
	return (1 + S.k);
}
static void check (void) {
	if (sc_get (&S.W) != 0 || sc_get (&S.R) != 0) rt_fatal ("shadow counters not zero at round end");
	if (S.cvs[0].waiters != NULL || S.cvs[1].waiters != NULL) rt_violation ("leftover-registration", "cv", "the cv waiter list is not empty after every thread returned");
	if ((sc_word (&S.mu.word) & (SC_MU_ANY_LOCK | 2u)) != 0) rt_violation ("final-word", "held", "after every thread finished the mutex word is %#x", sc_word (&S.mu.word));
}
static void teardown (void) { nsync_note_free (S.note); nsync_counter_free (S.ctr); }
static void describe (FILE *f) {
	int t;
	fprintf (f, "{\"waiters\":[");
	for (t = 1; t <= S.k; t++) fprintf (f, "%s\"%s%s%s ticket=%d result=%s\"", t > 1 ? "," : "", S.w[t].reader ? "R " : "W ", wkname[S.w[t].kind], S.foreign ? " generic" : "", S.ticket_of[t], S.returned[t] == 1 ? "woken" : S.returned[t] == 2 ? "timeout" : "asleep");
	fprintf (f, "],\"waker\":\"%s %s\"}", S.bcast ? "broadcast" : S.nsignals == 1 ? "1 signal" : S.nsignals == 2 ? "2 signals" : "3 signals", S.inside == 1 ? "inside the critical section" : S.inside == 2 ? "inside a read section" : "after the critical section");
}
static void pinit (void) {
	rt_cover_name (CV_WAITERS, "waiters"); rt_cover_name (CV_WOKEN, "first_waits_woken"); rt_cover_name (CV_TIMEDOUT, "first_waits_timed_out"); rt_cover_name (CV_SLEPT, "waits_that_slept");
	rt_cover_name (CV_SIG_ROUNDS, "signal_rounds"); rt_cover_name (CV_BCAST_ROUNDS, "broadcast_rounds"); rt_cover_name (CV_ASLEEP_AFTER_SIGNALS, "rounds_with_waiters_left_asleep_by_signals");
	rt_cover_name (CV_RACES, "rounds_where_a_timeout_raced_the_wakeup"); rt_cover_name (CV_INSIDE, "wakeups_issued_holding_the_mutex"); rt_cover_name (CV_READER_RULE, "reader_rule_checks"); rt_cover_name (CV_WAITN, "wait_n_waiters"); rt_cover_name (CV_INSIDE_R, "wakeups_issued_inside_a_read_section");
}
rt_scenario rt_scen = { "cv_tokens", "C04", 5, &pinit, &setup, &body, &check, &teardown, &describe, NULL, &describe, NULL };
