/* deadlines: C15 -- every nsync_time value is accepted as abs_deadline by every timed
   operation.  One case per round: case = round % ncases = (operation, deadline kind).

   Thread 0 makes the call; thread 1 is the helper that, for deadlines that must not
   expire (far future, nsync_time_no_deadline), waits until the caller is asleep, checks
   that it has not returned, and then makes the awaited event happen.

   Oracle per case:
     expired deadline  -> the call returns its timeout result (and returns at all: a hang
                          is caught by the watchdog and reported after one re-run);
     near future       -> the call returns its timeout result with clock >= deadline
                          (cv waits may also return 0: spurious wake-ups are permitted);
     far / no deadline -> still blocked when the helper acts, then returns the event result.
   A crash (SIGSEGV from an ASSERT, sanitizer report) is attributed to the round = case.

   --param intr=1: the caller's first two futex waits return EINTR (what the kernel does when a signal with a handler is
   delivered to the sleeping thread, even with SA_RESTART for absolute timeouts): an interrupted wait must not be taken for
   an expired deadline ("a future deadline does not time out early").
   --param intr=2: the caller's first futex wait returns 0 at once although nobody posted (FUTEX_WAIT may do so: a stale
   FUTEX_WAKE for a post that was already consumed): the wait must go back to sleep and still honour its deadline.  */
#include "sc.h"
#include <limits.h>

enum { OP_CV, OP_CV_NOTE, OP_MUWAIT, OP_MUWAIT_NOTE, OP_MUWAIT_R, OP_NOTE_WAIT, OP_NOTE_NEW, OP_COUNTER_WAIT, OP_WAITN_COUNTER, OP_WAITN_CV, OP_WAITN_5, N_OPS };
static const char *const op_name[] = { "nsync_cv_wait_with_deadline", "nsync_cv_wait_with_deadline+note", "nsync_mu_wait_with_deadline", "nsync_mu_wait_with_deadline+note",
	"nsync_mu_wait_with_deadline(reader)", "nsync_note_wait", "nsync_note_new", "nsync_counter_wait", "nsync_wait_n(counter)", "nsync_wait_n(cv,mu)", "nsync_wait_n(5 objects)" };
enum { D_ZERO, D_1NS, D_NEG1S, D_NEG1S_MAXNS, D_NEG_SMALL, D_NEG_2_31, D_NEG_HUGE, D_MIN, D_1S, D_NOW_MINUS_1S, D_NOW_MINUS_1NS, D_NOW, D_NOW_PLUS_SHORT, D_NOW_PLUS_MS,
       D_FAR, D_MAX_MINUS_1, D_NO_DEADLINE, N_DLS };
static const char *const dl_name[] = { "zero", "1ns", "-1s", "-1s+999999999ns", "-1ns(normalized)", "-2^31 s", "-10^15 s", "INT64_MIN+1 s", "1s", "now-1s", "now-1ns", "now",
	"now+short", "now+20ms", "now+10years", "no_deadline-1ns", "no_deadline" };
enum { CLS_EXPIRED, CLS_NEAR, CLS_NEVER };

static struct {
	int op, dk, cls;
	nsync_time dl;
	nsync_mu mu; nsync_cv cv; nsync_note note, other_note; nsync_counter ctr, ctr2;
	int cond;
	int returned;          /* caller returned from the call */
	int event_done;        /* helper made the event happen */
	int result;
	int64_t now_at_call_ns;
} S;

enum { CV_CASES = 0, CV_EXPIRED, CV_NEAR, CV_NEVER, CV_SPURIOUS, CV_SLEPT, CV_INTR };

static int cond_set (const void *v) { return (*(const int *) v != 0); }
static void my_lock (void *m) { nsync_mu_lock ((nsync_mu *) m); }
static void my_unlock (void *m) { nsync_mu_unlock ((nsync_mu *) m); }

static nsync_time mk (int64_t s, long ns) { nsync_time t; memset (&t, 0, sizeof (t)); t.tv_sec = (time_t) s; t.tv_nsec = ns; return (t); }

static void make_deadline (void) {
	nsync_time now = rt_now ();
	int64_t n = rt_ts_ns (now);
	S.cls = CLS_EXPIRED;
	switch (S.dk) {
	case D_ZERO: S.dl = nsync_time_zero; break;
	case D_1NS: S.dl = mk (0, 1); break;
	case D_NEG1S: S.dl = mk (-1, 0); break;
	case D_NEG1S_MAXNS: S.dl = mk (-1, 999999999); break;
	case D_NEG_SMALL: S.dl = nsync_time_sub (nsync_time_zero, mk (0, 1)); break;      /* {-1, 999999999} by the library's own arithmetic */
	case D_NEG_2_31: S.dl = mk (-2147483648ll, 0); break;
	case D_NEG_HUGE: S.dl = mk (-1000000000000000ll, 5); break;
	case D_MIN: S.dl = mk (INT64_MIN + 1, 0); break;
	case D_1S: S.dl = mk (1, 0); break;
	case D_NOW_MINUS_1S: S.dl = mk ((n - 1000000000ll) / 1000000000ll, (long) ((n - 1000000000ll) % 1000000000ll)); break;
	case D_NOW_MINUS_1NS: S.dl = mk ((n - 1) / 1000000000ll, (long) ((n - 1) % 1000000000ll)); break;
	case D_NOW: S.dl = now; break;
	case D_NOW_PLUS_SHORT: S.dl = rt_deadline_in (rt_mode_b () ? 500 : 200000); S.cls = CLS_NEAR; break;
	case D_NOW_PLUS_MS: S.dl = rt_deadline_in (20000000); S.cls = CLS_NEAR; break;
	case D_FAR: S.dl = rt_deadline_in (315360000ll * 1000000000ll); S.cls = CLS_NEVER; break;
	case D_MAX_MINUS_1: S.dl = nsync_time_no_deadline; S.dl.tv_nsec -= 1; S.cls = CLS_NEVER; break;
	default: S.dl = nsync_time_no_deadline; S.cls = CLS_NEVER; break;
	}
	S.now_at_call_ns = n;
}

/* thread 0 */
static void caller (void) {
	int r = -1, timeout_result = 0, event_result = 0, spurious_ok = 0;
	const char *api = op_name[S.op];
	switch (S.op) {
	case OP_CV: case OP_CV_NOTE:
		nsync_mu_lock (&S.mu);
		RT_OP (api, r = nsync_cv_wait_with_deadline (&S.cv, &S.mu, S.dl, S.op == OP_CV_NOTE ? S.other_note : NULL));
		nsync_mu_unlock (&S.mu);
		timeout_result = ETIMEDOUT; event_result = 0; spurious_ok = 1; break;
	case OP_MUWAIT: case OP_MUWAIT_NOTE:
		nsync_mu_lock (&S.mu);
		RT_OP (api, r = nsync_mu_wait_with_deadline (&S.mu, &cond_set, &S.cond, NULL, S.dl, S.op == OP_MUWAIT_NOTE ? S.other_note : NULL));
		nsync_mu_unlock (&S.mu);
		timeout_result = ETIMEDOUT; event_result = 0; break;
	case OP_MUWAIT_R:
		nsync_mu_rlock (&S.mu);
		RT_OP (api, r = nsync_mu_wait_with_deadline (&S.mu, &cond_set, &S.cond, NULL, S.dl, NULL));
		nsync_mu_runlock (&S.mu);
		timeout_result = ETIMEDOUT; event_result = 0; break;
	case OP_NOTE_WAIT:
		RT_OP (api, r = nsync_note_wait (S.note, S.dl));
		timeout_result = 0; event_result = 1; break;
	case OP_COUNTER_WAIT:
		RT_OP (api, r = (int) nsync_counter_wait (S.ctr, S.dl));
		timeout_result = 1; event_result = 0; break;
	case OP_WAITN_COUNTER: {
		struct nsync_waitable_s w; struct nsync_waitable_s *pw = &w;
		w.v = S.ctr; w.funcs = &nsync_counter_waitable_funcs;
		RT_OP (api, r = nsync_wait_n (NULL, NULL, NULL, S.dl, 1, &pw));
		timeout_result = 1; event_result = 0; break; }
	case OP_WAITN_CV: {
		struct nsync_waitable_s w[2]; struct nsync_waitable_s *pw[2];
		w[0].v = S.ctr2; w[0].funcs = &nsync_counter_waitable_funcs; w[1].v = &S.cv; w[1].funcs = &nsync_cv_waitable_funcs; pw[0] = &w[0]; pw[1] = &w[1];
		nsync_mu_lock (&S.mu);
		RT_OP (api, r = nsync_wait_n (&S.mu, &my_lock, &my_unlock, S.dl, 2, pw));
		nsync_mu_unlock (&S.mu);
		timeout_result = 2; event_result = 1; break; }
	case OP_WAITN_5: {
		struct nsync_waitable_s w[5]; struct nsync_waitable_s *pw[5]; int i;
		for (i = 0; i < 5; i++) { w[i].v = S.ctr2; w[i].funcs = &nsync_counter_waitable_funcs; pw[i] = &w[i]; }
		w[3].v = S.note; w[3].funcs = &nsync_note_waitable_funcs;
		RT_OP (api, r = nsync_wait_n (NULL, NULL, NULL, S.dl, 5, pw));
		timeout_result = 5; event_result = 3; break; }
	case OP_NOTE_NEW: {
		nsync_note n;
		RT_OP (api, n = nsync_note_new (NULL, S.dl));
		if (n == NULL) rt_fatal ("nsync_note_new returned NULL");
		if (nsync_time_cmp (nsync_note_expiry (n), S.dl) != 0) rt_violation ("note-expiry", dl_name[S.dk], "nsync_note_expiry differs from the deadline given to nsync_note_new");
		if (S.cls == CLS_EXPIRED) {
			int q; RT_OP ("nsync_note_is_notified", q = nsync_note_is_notified (n));
			if (!q) rt_violation ("expired-not-reported", api, "a note created with the expired deadline '%s' is not notified", dl_name[S.dk]);
			RT_OP ("nsync_note_wait", q = nsync_note_wait (n, nsync_time_no_deadline));
			if (!q) rt_violation ("expired-not-reported", api, "nsync_note_wait on a note with expired deadline '%s' returned 0", dl_name[S.dk]);
		} else if (S.cls == CLS_NEAR) {
			int q; RT_OP ("nsync_note_is_notified", q = nsync_note_is_notified (n));
			if (q && nsync_time_cmp (rt_now (), S.dl) < 0) rt_violation ("early-timeout", api, "a note with a future deadline is notified before the deadline");
			RT_OP ("nsync_note_wait", q = nsync_note_wait (n, nsync_time_no_deadline));
			if (!q || nsync_time_cmp (rt_now (), S.dl) < 0) rt_violation ("early-timeout", api, "nsync_note_wait(no deadline) on a note expiring at '%s' returned %d at %lld ns, deadline %lld ns", dl_name[S.dk], q, (long long) rt_now_ns (), (long long) rt_ts_ns (S.dl));
		} else {
			int q; RT_OP ("nsync_note_is_notified", q = nsync_note_is_notified (n));
			if (q) rt_violation ("early-timeout", api, "a note with deadline '%s' is notified at birth", dl_name[S.dk]);
			RT_OP ("nsync_note_wait", q = nsync_note_wait (n, rt_deadline_in (rt_mode_b () ? 1000 : 300000)));
			if (q) rt_violation ("early-timeout", api, "a note with deadline '%s' became notified by itself", dl_name[S.dk]);
		}
		nsync_note_free (n);
		sc_set (&S.returned, 1);
		return; }
	default: break;
	}
	if (rt_op_sleeps ()) rt_cover (CV_SLEPT);
	S.result = r;
	if (S.cls == CLS_EXPIRED) {
		rt_cover (CV_EXPIRED);
		if (r != timeout_result) {
			if (r == 0 && spurious_ok) rt_cover (CV_SPURIOUS);
			else rt_violation ("expired-not-reported", api, "%s with the expired deadline '%s' returned %d instead of its timeout result %d", api, dl_name[S.dk], r, timeout_result);
		}
	} else if (S.cls == CLS_NEAR) {
		rt_cover (CV_NEAR);
		if (r == timeout_result) {
			if (nsync_time_cmp (rt_now (), S.dl) < 0) rt_violation ("early-timeout", api, "%s reported a timeout at %lld ns, before its deadline %lld ns ('%s')", api, (long long) rt_now_ns (), (long long) rt_ts_ns (S.dl), dl_name[S.dk]);
		} else if (r == 0 && spurious_ok) rt_cover (CV_SPURIOUS);
		else rt_violation ("wrong-result", api, "%s with nothing happening returned %d (timeout result is %d)", api, r, timeout_result);
	} else {
		rt_cover (CV_NEVER);
		if (!sc_get (&S.event_done)) {
			if (r == 0 && spurious_ok) rt_cover (CV_SPURIOUS);
			else rt_violation ("early-timeout", api, "%s with deadline '%s' returned %d before the awaited event happened", api, dl_name[S.dk], r);
		} else if (r != event_result && !(r == 0 && spurious_ok)) {
			rt_violation ("wrong-result", api, "%s with deadline '%s' returned %d after the event, expected %d", api, dl_name[S.dk], r, event_result);
		}
	}
	__atomic_store_n (&S.returned, 1, __ATOMIC_RELEASE);
}

/* thread 1 */
static void helper (void) {
	int spins = 0;
	if (S.cls != CLS_NEVER || S.op == OP_NOTE_NEW) return;
	/* wait until the caller sleeps (or has returned, which the caller then judges) */
	while (!rt_thread_in_wait (0) && !__atomic_load_n (&S.returned, __ATOMIC_ACQUIRE)) {
		if (rt_mode_b ()) rt_yield (); else rt_sleep_us (100);
		if (++spins > 2000000) rt_fatal ("helper: caller neither sleeps nor returns");
	}
	if (!rt_mode_b ()) rt_sleep_us (3000); else { int i; for (i = 0; i < 20; i++) rt_point ("helper-linger"); }
	sc_set (&S.event_done, 1);
	switch (S.op) {
	case OP_CV: case OP_CV_NOTE:
		nsync_mu_lock (&S.mu); nsync_mu_unlock (&S.mu); RT_OP ("nsync_cv_signal", nsync_cv_signal (&S.cv)); break;
	case OP_MUWAIT: case OP_MUWAIT_NOTE: case OP_MUWAIT_R:
		nsync_mu_lock (&S.mu); S.cond = 1; nsync_mu_unlock (&S.mu); break;
	case OP_NOTE_WAIT: case OP_WAITN_5: RT_OP ("nsync_note_notify", nsync_note_notify (S.note)); break;
	case OP_COUNTER_WAIT: case OP_WAITN_COUNTER: RT_OP ("nsync_counter_add", nsync_counter_add (S.ctr, -1)); break;
	case OP_WAITN_CV: nsync_mu_lock (&S.mu); nsync_mu_unlock (&S.mu); RT_OP ("nsync_cv_broadcast", nsync_cv_broadcast (&S.cv)); break;
	default: break;
	}
}

static void body (int tid) { if (tid == 0) caller (); else helper (); }

static int setup (uint64_t seed) {
	uint64_t c = rt_round () % (uint64_t) (N_OPS * N_DLS);
	(void) seed;
	S.op = (int) (c / N_DLS); S.dk = (int) (c % N_DLS);
	nsync_mu_init (&S.mu); nsync_cv_init (&S.cv);
	S.note = nsync_note_new (NULL, nsync_time_no_deadline);
	S.other_note = nsync_note_new (NULL, nsync_time_no_deadline);
	S.ctr = nsync_counter_new (1); S.ctr2 = nsync_counter_new (1);
	S.cond = 0; S.returned = 0; S.event_done = 0; S.result = -1;
	make_deadline ();
	if (rt_param ("intr", 0) == 1) { static const int plan[2] = { EINTR, EINTR }; rt_fault_plan (0, plan, 2); rt_cover (CV_INTR); }
	if (rt_param ("intr", 0) == 2) { static const int plan[2] = { RT_FAULT_SPURIOUS_WAKE, 0 }; rt_fault_plan (0, plan, 2); rt_cover (CV_INTR); }
	rt_cover (CV_CASES);
	rt_ev ((uint32_t) c);
	rt_mark_nontrivial ();
	return (2);
}
static void check (void) { if (!S.returned) rt_fatal ("caller did not finish"); }
static void teardown (void) { nsync_note_free (S.note); nsync_note_free (S.other_note); nsync_counter_free (S.ctr); nsync_counter_free (S.ctr2); }
static void describe (FILE *f) {
	fprintf (f, "{\"operation\":\"%s\",\"deadline\":\"%s\",\"tv_sec\":%lld,\"tv_nsec\":%ld,\"class\":\"%s\",\"result\":%d}", op_name[S.op], dl_name[S.dk], (long long) S.dl.tv_sec, (long) S.dl.tv_nsec,
		 S.cls == CLS_EXPIRED ? "expired" : S.cls == CLS_NEAR ? "near-future" : "never", S.result);
}
static void pinit (void) {
	rt_cover_name (CV_CASES, "cases"); rt_cover_name (CV_EXPIRED, "expired_deadline_cases"); rt_cover_name (CV_NEAR, "near_future_cases"); rt_cover_name (CV_NEVER, "blocking_cases");
	rt_cover_name (CV_SPURIOUS, "cv_returns_without_timeout_or_signal"); rt_cover_name (CV_SLEPT, "calls_that_slept"); rt_cover_name (CV_INTR, "cases_run_with_interrupted_futex_waits");
}
static void summary (FILE *f) { fprintf (f, "\"x_operations\":%d,\"x_deadline_kinds\":%d", N_OPS, N_DLS); }
rt_scenario rt_scen = { "deadlines", "C15", 2, &pinit, &setup, &body, &check, &teardown, &describe, &summary, &describe, NULL };
