/* debug_buf: C16 (buffer clause) -- nsync_{mu,cv}_debug_state[_and_waiters] write only
   within buf[0..n-1], NUL-terminate when n >= 1 and end a truncated result with "..." when
   n >= 4.

   Thread 0 is the controller; threads 1..3 build a quiescent state with queued waiters:
     state 0  free mutex, nobody queued
     state 1  controller holds the mutex (write), 1..3 lockers queued (nsync_mu_lock / rlock)
     state 2  controller holds it in read mode, a writer and readers queued behind
     state 3  1..3 threads in nsync_cv_wait* on the cv (reader and writer mode)
     state 4  1..3 conditional waiters (nsync_mu_wait, false condition, some sharing it)
   When nothing else can run (rt_wait_quiescent) the controller renders each of the four
   functions into a 1024-byte buffer (the reference) and then, for every n in 0..80:
     - into a window of a canary-filled array: every byte outside [0,n) must be unchanged,
     - into an exactly n-byte heap block (ASan build: any out-of-bounds write is reported),
   and checks: return value == buf; n >= 1 => a NUL within [0,n); if the reference fits
   (strlen < n) the result equals it; otherwise (n >= 4) the result has length n-1, ends in
   "..." and its first n-4 bytes are a prefix of the reference.
   The state cannot change during the checks (everybody else is asleep and stays asleep until
   the controller releases them), so the reference is exact.  */
#include "sc.h"

#define NMAX 80
static struct {
	nsync_mu mu; nsync_cv cv;
	int state, nw, go, cond;
	int reader[4], timed[4], samecond[4];
	unsigned long renders, truncated, fits;
} S;
enum { CV_STATES = 0, CV_RENDERS, CV_TRUNCATED, CV_FITS, CV_WAITERS_QUEUED };
static int cond_go (const void *v) { return (*(const int *) v != 0); }
static int cond_go2 (const void *v) { return (*(const int *) v != 0); }

static char *render (int which, char *buf, int n) {
	switch (which) {
	case 0: return (nsync_mu_debug_state (&S.mu, buf, n));
	case 1: return (nsync_mu_debug_state_and_waiters (&S.mu, buf, n));
	case 2: return (nsync_cv_debug_state (&S.cv, buf, n));
	default: return (nsync_cv_debug_state_and_waiters (&S.cv, buf, n));
	}
}
static const char *const fname[] = { "nsync_mu_debug_state", "nsync_mu_debug_state_and_waiters", "nsync_cv_debug_state", "nsync_cv_debug_state_and_waiters" };

static void check_result (int which, const char *ref, const char *buf, int n, const char *where) {
	size_t L = strlen (ref);
	if (n >= 1 && memchr (buf, 0, (size_t) n) == NULL) rt_violation ("debug-unterminated", fname[which], "%s(n=%d, %s): no NUL within the buffer", fname[which], n, where);
	if (n == 0) return;
	if (L < (size_t) n) {
		S.fits++;
		if (strcmp (buf, ref) != 0) rt_violation ("debug-content", fname[which], "%s(n=%d, %s): the result differs from the untruncated rendering although it fits: '%s' vs '%s'", fname[which], n, where, buf, ref);
	} else {
		S.truncated++;
		if (n >= 4) {
			size_t bl = strlen (buf);
			if (bl != (size_t) n - 1 || strcmp (buf + bl - 3, "...") != 0) rt_violation ("debug-truncation-marker", fname[which], "%s(n=%d, %s): a truncated result must fill the buffer and end in \"...\": got '%s' (length %zu)", fname[which], n, where, buf, bl);
			if (memcmp (buf, ref, (size_t) n - 4) != 0) rt_violation ("debug-content", fname[which], "%s(n=%d, %s): the truncated result is not a prefix of the full rendering", fname[which], n, where);
		}
	}
}

static void check_all (void) {
	static char ref[4][1024];
	static unsigned char arena[NMAX + 64];
	int which, n, i;
	for (which = 0; which < 4; which++) {
		memset (ref[which], 0x5a, sizeof (ref[which]));
		if (render (which, ref[which], (int) sizeof (ref[which])) != ref[which]) rt_violation ("debug-return", fname[which], "%s did not return its buffer", fname[which]);
		if (memchr (ref[which], 0, sizeof (ref[which])) == NULL) rt_violation ("debug-unterminated", fname[which], "1024-byte rendering is not NUL-terminated");
		if (strlen (ref[which]) >= sizeof (ref[which]) - 1) continue;   /* reference itself truncated: cannot compare */
		for (n = 0; n <= NMAX; n++) {
			char *w = (char *) arena + 32, *h, *r;
			S.renders += 2;
			memset (arena, 0xAB, sizeof (arena));
			r = render (which, w, n);
			if (r != w) rt_violation ("debug-return", fname[which], "%s(n=%d) did not return its buffer", fname[which], n);
			for (i = 0; i < (int) sizeof (arena); i++) if ((i < 32 || i >= 32 + n) && arena[i] != 0xAB)
				rt_violation ("debug-out-of-bounds", fname[which], "%s(buf, n=%d) wrote byte %d relative to buf (value %#x): outside buf[0..n-1]", fname[which], n, i - 32, arena[i]);
			check_result (which, ref[which], w, n, "array window");
			h = (char *) malloc (n > 0 ? (size_t) n : 1);
			memset (h, 0xAB, n > 0 ? (size_t) n : 1);
			r = render (which, h, n);
			if (r != h) rt_violation ("debug-return", fname[which], "%s(n=%d) did not return its buffer", fname[which], n);
			if (n == 0 && (unsigned char) h[0] != 0xAB) rt_violation ("debug-out-of-bounds", fname[which], "%s(buf, n=0) wrote to buf[0]", fname[which]);
			check_result (which, ref[which], h, n, "exact-size heap block");
			free (h);
		}
	}
	rt_cover (CV_STATES);
}

static void controller (void) {
	int t, queued = 0;
	if (S.state == 1) nsync_mu_lock (&S.mu);
	if (S.state == 2) nsync_mu_rlock (&S.mu);
	__atomic_store_n (&S.go, 1, __ATOMIC_RELEASE);
	rt_wait_quiescent ();
	for (t = 1; t <= S.nw; t++) if (rt_thread_blocked (t)) queued++;
	rt_cover_add (CV_WAITERS_QUEUED, queued);
	if (S.state == 2 ? queued < 1 : (S.state != 0 && queued != S.nw)) rt_fatal ("state %d: %d of %d waiters queued at quiescence", S.state, queued, S.nw);
	check_all ();
	/* release everybody */
	if (S.state == 1) nsync_mu_unlock (&S.mu);
	if (S.state == 2) nsync_mu_runlock (&S.mu);
	if (S.state == 3 || S.state == 4) { nsync_mu_lock (&S.mu); S.cond = 1; nsync_mu_unlock (&S.mu); nsync_cv_broadcast (&S.cv); }
	rt_mark_nontrivial ();
}

static void waiter (int tid) {
	int spins = 0;
	while (!__atomic_load_n (&S.go, __ATOMIC_ACQUIRE)) { rt_yield (); if (!rt_mode_b () && (++spins & 7) == 0) rt_sleep_us (10); }
	switch (S.state) {
	case 1: case 2:
		if (S.reader[tid] && !(S.state == 2 && tid == 1)) { nsync_mu_rlock (&S.mu); nsync_mu_runlock (&S.mu); }
		else { nsync_mu_lock (&S.mu); nsync_mu_unlock (&S.mu); }
		break;
	case 3:
		if (S.reader[tid]) nsync_mu_rlock (&S.mu); else nsync_mu_lock (&S.mu);
		while (!S.cond) { if (S.timed[tid]) nsync_cv_wait_with_deadline (&S.cv, &S.mu, rt_deadline_in (7200ll * 1000000000ll), NULL); else nsync_cv_wait (&S.cv, &S.mu); }
		if (S.reader[tid]) nsync_mu_runlock (&S.mu); else nsync_mu_unlock (&S.mu);
		break;
	case 4:
		if (S.reader[tid]) nsync_mu_rlock (&S.mu); else nsync_mu_lock (&S.mu);
		nsync_mu_wait (&S.mu, S.samecond[tid] ? &cond_go : &cond_go2, &S.cond, NULL);
		if (S.reader[tid]) nsync_mu_runlock (&S.mu); else nsync_mu_unlock (&S.mu);
		break;
	default: break;
	}
}
static void body (int tid) { if (tid == 0) controller (); else waiter (tid); }

static int setup (uint64_t seed) {
	int t;
	(void) seed;
	nsync_mu_init (&S.mu); nsync_cv_init (&S.cv);
	S.state = (int) (rt_round () % 5);
	S.nw = S.state == 0 ? 0 : 1 + (int) rt_rand_n (3);
	S.go = 0; S.cond = 0;
	for (t = 1; t <= 3; t++) { S.reader[t] = (int) rt_rand_n (2); S.timed[t] = rt_mode_b () ? (int) rt_rand_n (2) : 0; S.samecond[t] = (int) rt_rand_n (2); }
	if (S.state == 2) S.reader[1] = 0;     /* a writer must queue first, or readers would simply join the controller */
	rt_ev ((uint32_t) (S.state | S.nw << 4 | S.reader[1] << 8 | S.reader[2] << 9 | S.reader[3] << 10 | S.samecond[1] << 11 | S.samecond[2] << 12));
	return (1 + S.nw);
}
static void check (void) { }
static void describe (FILE *f) { static const char *const sn[] = { "free mutex", "write-held, lockers queued", "read-held, writer+others queued", "cv waiters", "conditional waiters" };
	char b[200]; nsync_mu_debug_state (&S.mu, b, (int) sizeof (b));
	fprintf (f, "{\"state\":\"%s\",\"waiters\":%d,\"sizes\":\"n = 0..%d, array window and exact heap block, 4 functions\",\"sample_rendering_after_release\":\"%s\"}", sn[S.state], S.nw, NMAX, b); }
static void summary (FILE *f) { fprintf (f, "\"x_renderings_checked\":%lu,\"x_truncated_cases\":%lu,\"x_fitting_cases\":%lu", S.renders, S.truncated, S.fits); }
static void pinit (void) { rt_cover_name (CV_STATES, "quiescent_states_checked"); rt_cover_name (CV_WAITERS_QUEUED, "waiters_queued_in_those_states"); }
rt_scenario rt_scen = { "debug_buf", "C16", 4, &pinit, &setup, &body, &check, NULL, &describe, &summary, NULL, NULL };
