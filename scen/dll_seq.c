/* dll_seq: C17 -- the waiter-queue list operations implement sequences.
   Differential check against arrays after EVERY operation: forward traversal
   (first/next), backward traversal (last/prev), emptiness, self-linked singletons,
   container pointers.

   Round 0 enumerates every operation sequence up to depth D (param "depth", default 5)
   over K elements (param "elems", default 4) and 2 lists from the empty state, respecting
   the documented preconditions.  Later rounds run random sequences of 300 operations over
   6 elements and 3 lists.

   Operations (all are uses the library itself makes or documents):
     make_first(l, e), make_last(l, e)      e a free (self-linked) element
     remove(l, e)                           e a member of l
     move_first(l, m, e), move_last(l, m, e)  e any member of another list m: "e, followed by
                                            any elements in the same list as e" -- the whole
                                            of m, rotated to start (end) at e, joins l
     splice_after(p, n)                     p member of l or free, n member of another list
                                            or free: n and its successors come after p  */
#include "sc.h"
#include "dll.h"

#define MAXK 6
#define MAXL 3
struct state {
	nsync_dll_element_ el[MAXK];
	nsync_dll_list_ head[MAXL];
	int model[MAXL][MAXK], mlen[MAXL];
	int where[MAXK];        /* list index or -1 (free singleton) */
};
static struct state S;
static int K, L;
static unsigned long ops_done, checks_done;
static char last_op[128];
static char trail[8][128]; static int trail_n;

static uint64_t model_hash (void) {
	uint64_t h = 1469598103934665603ull; int l, i;
	for (l = 0; l < L; l++) { h = (h ^ 0xff) * 1099511628211ull; for (i = 0; i < S.mlen[l]; i++) h = (h ^ (uint64_t) (S.model[l][i] + 1)) * 1099511628211ull; }
	return (h);
}

static void fail (const char *what, int l) {
	char buf[900]; int n = 0, i, j;
	for (i = 0; i < trail_n && n < 700; i++) n += snprintf (buf + n, sizeof (buf) - (size_t) n, "%s; ", trail[i]);
	n += snprintf (buf + n, sizeof (buf) - (size_t) n, "| model:");
	for (j = 0; j < L; j++) { n += snprintf (buf + n, sizeof (buf) - (size_t) n, " ["); for (i = 0; i < S.mlen[j]; i++) n += snprintf (buf + n, sizeof (buf) - (size_t) n, "%d ", S.model[j][i]); n += snprintf (buf + n, sizeof (buf) - (size_t) n, "]"); }
	rt_violation ("dll-differential", what, "after '%s': list %d: %s (operations: %s)", last_op, l, what, buf);
}

static void verify (void) {
	int l, i, e;
	checks_done++;
	for (l = 0; l < L; l++) {
		nsync_dll_element_ *p; int n = S.mlen[l];
		if ((nsync_dll_is_empty_ (S.head[l]) != 0) != (n == 0)) fail ("is_empty disagrees with the sequence", l);
		if (n == 0) {
			if (nsync_dll_first_ (S.head[l]) != NULL || nsync_dll_last_ (S.head[l]) != NULL) fail ("first/last of the empty list is not NULL", l);
			continue;
		}
		p = nsync_dll_first_ (S.head[l]);
		for (i = 0; i < n; i++) {
			if (p != &S.el[S.model[l][i]]) fail ("forward traversal differs from the sequence", l);
			if (p->container != (void *) &S.el[S.model[l][i]]) fail ("container pointer changed", l);
			p = nsync_dll_next_ (S.head[l], p);
		}
		if (p != NULL) fail ("forward traversal is longer than the sequence", l);
		p = nsync_dll_last_ (S.head[l]);
		for (i = n - 1; i >= 0; i--) {
			if (p != &S.el[S.model[l][i]]) fail ("backward traversal differs from the sequence", l);
			p = nsync_dll_prev_ (S.head[l], p);
		}
		if (p != NULL) fail ("backward traversal is longer than the sequence", l);
	}
	for (e = 0; e < K; e++) if (S.where[e] < 0 && (S.el[e].next != &S.el[e] || S.el[e].prev != &S.el[e])) fail ("a removed element is not a self-linked singleton", e);
}

static int pos_in (int l, int e) { int i; for (i = 0; i < S.mlen[l]; i++) if (S.model[l][i] == e) return (i); return (-1); }
static void m_insert (int l, int at, const int *v, int n) {
	int i;
	for (i = S.mlen[l] - 1; i >= at; i--) S.model[l][i + n] = S.model[l][i];
	for (i = 0; i < n; i++) { S.model[l][at + i] = v[i]; S.where[v[i]] = l; }
	S.mlen[l] += n;
}
static int m_rotate_out (int m, int start_e, int *out) {   /* remove all of m, rotated to start at start_e */
	int n = S.mlen[m], p = pos_in (m, start_e), i;
	for (i = 0; i < n; i++) out[i] = S.model[m][(p + i) % n];
	S.mlen[m] = 0;
	return (n);
}

/* operation kinds */
enum { O_MF, O_ML, O_RM, O_MVF, O_MVL, O_SPL };
struct opd { int kind, l, e, m, p; };

static int enum_ops (struct opd *o) {
	int n = 0, l, e, m, p;
	for (l = 0; l < L; l++) for (e = 0; e < K; e++) {
		if (S.where[e] < 0) { o[n].kind = O_MF; o[n].l = l; o[n].e = e; n++; o[n].kind = O_ML; o[n].l = l; o[n].e = e; n++; }
		else if (S.where[e] == l) { o[n].kind = O_RM; o[n].l = l; o[n].e = e; n++; }
		else { m = S.where[e]; o[n].kind = O_MVF; o[n].l = l; o[n].e = e; o[n].m = m; n++; o[n].kind = O_MVL; o[n].l = l; o[n].e = e; o[n].m = m; n++; }
	}
	/* splice_after(p, n): p in a list (or free), n in a different list or free, not the same circle */
	for (p = 0; p < K; p++) for (e = 0; e < K; e++) {
		if (p == e) continue;
		if (S.where[p] >= 0 && S.where[p] == S.where[e]) continue;
		if (S.where[p] < 0) continue;   /* a free p would create a headless circle; the library never does that */
		o[n].kind = O_SPL; o[n].p = p; o[n].e = e; o[n].l = S.where[p]; o[n].m = S.where[e]; n++;
	}
	return (n);
}

static void apply (const struct opd *o) {
	int tmp[MAXK], n, at;
	ops_done++;
	switch (o->kind) {
	case O_MF: snprintf (last_op, sizeof (last_op), "make_first(list%d, e%d)", o->l, o->e);
		S.head[o->l] = nsync_dll_make_first_in_list_ (S.head[o->l], &S.el[o->e]); tmp[0] = o->e; m_insert (o->l, 0, tmp, 1); break;
	case O_ML: snprintf (last_op, sizeof (last_op), "make_last(list%d, e%d)", o->l, o->e);
		S.head[o->l] = nsync_dll_make_last_in_list_ (S.head[o->l], &S.el[o->e]); tmp[0] = o->e; m_insert (o->l, S.mlen[o->l], tmp, 1); break;
	case O_RM: snprintf (last_op, sizeof (last_op), "remove(list%d, e%d)", o->l, o->e);
		S.head[o->l] = nsync_dll_remove_ (S.head[o->l], &S.el[o->e]);
		{ int p = pos_in (o->l, o->e), i; for (i = p; i + 1 < S.mlen[o->l]; i++) S.model[o->l][i] = S.model[o->l][i + 1]; S.mlen[o->l]--; S.where[o->e] = -1; } break;
	case O_MVF: snprintf (last_op, sizeof (last_op), "make_first(list%d, e%d of list%d)", o->l, o->e, o->m);
		S.head[o->l] = nsync_dll_make_first_in_list_ (S.head[o->l], &S.el[o->e]); S.head[o->m] = NULL;
		n = m_rotate_out (o->m, o->e, tmp); m_insert (o->l, 0, tmp, n); break;
	case O_MVL: snprintf (last_op, sizeof (last_op), "make_last(list%d, e%d of list%d)", o->l, o->e, o->m);
		S.head[o->l] = nsync_dll_make_last_in_list_ (S.head[o->l], &S.el[o->e]); S.head[o->m] = NULL;
		{ int pn = S.mlen[o->m], p = pos_in (o->m, o->e); int nxt = S.model[o->m][(p + 1) % pn]; n = m_rotate_out (o->m, nxt, tmp); } m_insert (o->l, S.mlen[o->l], tmp, n); break;
	case O_SPL: snprintf (last_op, sizeof (last_op), "splice_after(e%d of list%d, e%d of %s%d)", o->p, o->l, o->e, o->m < 0 ? "free" : "list", o->m);
		nsync_dll_splice_after_ (&S.el[o->p], &S.el[o->e]);
		if (o->m >= 0) { S.head[o->m] = NULL; n = m_rotate_out (o->m, o->e, tmp); } else { tmp[0] = o->e; n = 1; }
		at = pos_in (o->l, o->p) + 1;
		if (at == S.mlen[o->l]) at = 0;        /* p is the last element: what follows it circularly is the front */
		m_insert (o->l, at, tmp, n); break;
	default: break;
	}
	if (trail_n < 8) snprintf (trail[trail_n++], sizeof (trail[0]), "%s", last_op);
	verify ();
	{ int l, big = 0; for (l = 0; l < L; l++) if (S.mlen[l] >= 2) big = 1; if (big) rt_distinct_add (model_hash ()); }
}

static void reset_state (int k, int l) {
	int i;
	K = k; L = l; memset (&S, 0, sizeof (S));
	for (i = 0; i < K; i++) { nsync_dll_init_ (&S.el[i], &S.el[i]); S.where[i] = -1; }
	trail_n = 0;
}

static unsigned long seqs;
static void dfs (int depth) {
	struct opd o[MAXL * MAXK * 2 + MAXK * MAXK]; int n, i;
	struct state save = S; int save_trail = trail_n;
	if (depth == 0) { seqs++; return; }
	n = enum_ops (o);
	for (i = 0; i < n; i++) {
		apply (&o[i]);
		dfs (depth - 1);
		S = save; trail_n = save_trail;
	}
}

static int exhaustive_depth;
static void body (int tid) {
	(void) tid;
	if (rt_round () == 0) {
		exhaustive_depth = (int) rt_param ("depth", 5);
		reset_state ((int) rt_param ("elems", 4), 2);
		verify ();
		dfs (exhaustive_depth);
	} else {
		int i;
		reset_state (MAXK, MAXL);
		for (i = 0; i < 300; i++) { struct opd o[MAXL * MAXK * 2 + MAXK * MAXK]; int n = enum_ops (o); if (trail_n >= 8) trail_n = 0; apply (&o[rt_rand_n ((unsigned) n)]); }
		seqs++;
	}
	rt_mark_nontrivial ();
}
static int setup (uint64_t seed) { (void) seed; return (1); }
static void check (void) { }
static void describe (FILE *f) { fprintf (f, "{\"kind\":\"%s\",\"last_operations\":[", rt_round () == 0 ? "exhaustive" : "random"); { int i; for (i = 0; i < trail_n; i++) fprintf (f, "%s\"%s\"", i ? "," : "", trail[i]); } fprintf (f, "]}"); }
static void summary (FILE *f) { fprintf (f, "\"x_operations_applied\":%lu,\"x_differential_checks\":%lu,\"x_sequences\":%lu,\"x_exhaustive_depth\":%d", ops_done, checks_done, seqs, exhaustive_depth); }
rt_scenario rt_scen = { "dll_seq", "C17", 1, NULL, &setup, &body, &check, NULL, &describe, &summary, NULL, NULL };
