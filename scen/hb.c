/* hb: C03 -- every hand-off is a happens-before edge under the declared memory orders.
   Built with -fsanitize=thread -U__SANITIZE_THREAD__ (nsync's own race-detector annotations
   removed), so ThreadSanitizer derives happens-before only from the memory order each
   atomic operation of nsync requests.  The oracle is ThreadSanitizer itself: every payload
   below is a PLAIN word; all harness bookkeeping is relaxed atomics (which give no edges).

   One edge family per round (round kind = round mod 6):
     0 once     the once-function writes payload; every caller of any nsync_run_once* variant
                reads it after its call returns
     1 note     writer: payload = x; nsync_note_notify.  readers read payload after
                nsync_note_is_notified()==1, after nsync_note_wait()==1, after a cv wait
                returned ECANCELED, after nsync_wait_n returned the note
     2 counter  each decrementer writes its own payload slot, then nsync_counter_add(-1);
                readers read all slots after nsync_counter_wait()==0, nsync_counter_value()==0,
                nsync_counter_add(0)==0, nsync_wait_n on the counter
     3 signal   signaller: payload = x; issued = 1 (relaxed); nsync_cv_signal/broadcast WITHOUT
                the mutex.  waiter: timed nsync_cv_wait_with_deadline; reads payload only if
                the wait reported a wake-up (result 0) and issued is set
     4 mutex    message passing through the mutex: lock/unlock, rlock/runlock, try-locks,
                and blocking in nsync_cv_wait / nsync_mu_wait between a writer and readers
     5 child    parent note notified after payload write; readers observe a CHILD note  */
#include "sc.h"

#define NSLOT 4
static struct {
	int kind, nthreads;
	long payload[NSLOT];            /* PLAIN: the data the edges must order */
	nsync_once once;
	nsync_note note, child;
	nsync_counter ctr;
	nsync_mu mu; nsync_cv cv;
	int issued;                     /* relaxed atomic */
	int ready;                      /* plain, protected by mu (kind 4) */
	int variant[RT_MAXT], how[RT_MAXT];
	long sink;
} S;
enum { CV_READS = 0, CV_SKIPPED, CV_EDGES_ONCE, CV_EDGES_NOTE, CV_EDGES_COUNTER, CV_EDGES_SIGNAL, CV_EDGES_MUTEX, CV_EDGES_CHILD };

static void use (long v) { __atomic_fetch_add (&S.sink, v, __ATOMIC_RELAXED); rt_cover (CV_READS); }

static void once_fn (void) { int i; for (i = 0; i < NSLOT; i++) S.payload[i] = 100 + i; rt_point ("in-once"); }
static void once_fn_arg (void *a) { (void) a; once_fn (); }
static int ready_cond (const void *v) { return (*(const int *) v != 0); }

static void body (int tid) {
	int i;
	switch (S.kind) {
	case 0:
		switch (S.variant[tid]) {
		case 0: nsync_run_once (&S.once, &once_fn); break;
		case 1: nsync_run_once_arg (&S.once, &once_fn_arg, NULL); break;
		case 2: nsync_run_once_spin (&S.once, &once_fn); break;
		default: nsync_run_once_arg_spin (&S.once, &once_fn_arg, NULL); break;
		}
		for (i = 0; i < NSLOT; i++) use (S.payload[i]);
		rt_cover (CV_EDGES_ONCE);
		break;
	case 1: case 5: {
		nsync_note observed = S.kind == 5 ? S.child : S.note;
		if (tid == 0) {
			for (i = 0; i < NSLOT; i++) S.payload[i] = 200 + i;
			rt_point ("before-notify");
			nsync_note_notify (S.note);
		} else {
			int seen = 0;
			switch (S.how[tid]) {
			case 0: { int k; for (k = 0; k < 50 && !seen; k++) { seen = nsync_note_is_notified (observed); if (!seen) rt_yield (); } break; }
			case 1: seen = nsync_note_wait (observed, rt_deadline_in (rt_mode_b () ? 20000 : 2000000)); break;
			case 2: { nsync_mu m; nsync_cv c; int r; nsync_mu_init (&m); nsync_cv_init (&c); nsync_mu_lock (&m);
				r = nsync_cv_wait_with_deadline (&c, &m, rt_deadline_in (rt_mode_b () ? 20000 : 2000000), observed); nsync_mu_unlock (&m); seen = (r == ECANCELED); break; }
			default: { struct nsync_waitable_s w; struct nsync_waitable_s *pw = &w; w.v = observed; w.funcs = &nsync_note_waitable_funcs;
				seen = (nsync_wait_n (NULL, NULL, NULL, rt_deadline_in (rt_mode_b () ? 20000 : 2000000), 1, &pw) == 0); break; }
			}
			if (seen) { for (i = 0; i < NSLOT; i++) use (S.payload[i]); rt_cover (S.kind == 5 ? CV_EDGES_CHILD : CV_EDGES_NOTE); } else rt_cover (CV_SKIPPED);
		}
		break; }
	case 2:
		if (tid < 2) {
			S.payload[tid] = 300 + tid; S.payload[tid + 2] = 310 + tid;
			rt_point ("before-add");
			nsync_counter_add (S.ctr, -1);
		} else {
			int zero = 0;
			switch (S.how[tid]) {
			case 0: zero = (nsync_counter_wait (S.ctr, rt_deadline_in (rt_mode_b () ? 20000 : 2000000)) == 0); break;
			case 1: { int k; for (k = 0; k < 50 && !zero; k++) { zero = (nsync_counter_value (S.ctr) == 0); if (!zero) rt_yield (); } break; }
			case 2: { int k; for (k = 0; k < 50 && !zero; k++) { zero = (nsync_counter_add (S.ctr, 0) == 0); if (!zero) rt_yield (); } break; }
			default: { struct nsync_waitable_s w; struct nsync_waitable_s *pw = &w; w.v = S.ctr; w.funcs = &nsync_counter_waitable_funcs;
				zero = (nsync_wait_n (NULL, NULL, NULL, rt_deadline_in (rt_mode_b () ? 20000 : 2000000), 1, &pw) == 0); break; }
			}
			if (zero) { for (i = 0; i < NSLOT; i++) use (S.payload[i]); rt_cover (CV_EDGES_COUNTER); } else rt_cover (CV_SKIPPED);
		}
		break;
	case 3:
		if (tid == 0) {
			int k;
			for (k = 0; k < 3; k++) rt_point ("let-them-wait");
			if (!rt_mode_b ()) rt_sleep_us (rt_rand_n (200));
			for (i = 0; i < NSLOT; i++) S.payload[i] = 400 + i;
			__atomic_store_n (&S.issued, 1, __ATOMIC_RELAXED);
			if (S.how[0]) nsync_cv_signal (&S.cv); else nsync_cv_broadcast (&S.cv);
		} else {
			int r;
			nsync_mu_lock (&S.mu);
			if (S.how[tid] == 3) { struct nsync_waitable_s w; struct nsync_waitable_s *pw = &w; w.v = &S.cv; w.funcs = &nsync_cv_waitable_funcs;
				r = nsync_wait_n (&S.mu, (void (*) (void *)) &nsync_mu_lock, (void (*) (void *)) &nsync_mu_unlock, rt_deadline_in (rt_mode_b () ? 20000 : 1000000), 1, &pw) == 0 ? 0 : ETIMEDOUT; }
			else r = nsync_cv_wait_with_deadline (&S.cv, &S.mu, rt_deadline_in (rt_mode_b () ? 20000 : 1000000), NULL);
			nsync_mu_unlock (&S.mu);
			if (r == 0 && __atomic_load_n (&S.issued, __ATOMIC_RELAXED)) { for (i = 0; i < NSLOT; i++) use (S.payload[i]); rt_cover (CV_EDGES_SIGNAL); } else rt_cover (CV_SKIPPED);
		}
		break;
	default:   /* 4: mutex */
		if (tid == 0) {
			int k;
			for (k = 0; k < 3; k++) {
				if (k == 1 && S.how[0] == 1) { if (!nsync_mu_trylock (&S.mu)) nsync_mu_lock (&S.mu); } else nsync_mu_lock (&S.mu);
				for (i = 0; i < NSLOT; i++) S.payload[i] += 1;
				if (k == 2) S.ready = 1;
				if (S.how[0] == 2 && k < 2) nsync_cv_wait_with_deadline (&S.cv, &S.mu, rt_deadline_in (rt_mode_b () ? 500 : 20000), NULL);   /* blocks: releases and re-acquires */
				nsync_mu_unlock (&S.mu);
				nsync_cv_broadcast (&S.cv);
				rt_point ("between-sections");
			}
		} else {
			switch (S.how[tid]) {
			case 0: nsync_mu_rlock (&S.mu); for (i = 0; i < NSLOT; i++) use (S.payload[i]); nsync_mu_runlock (&S.mu); nsync_mu_lock (&S.mu); S.payload[0] += 1; nsync_mu_unlock (&S.mu); break;
			case 1: if (nsync_mu_rtrylock (&S.mu)) { for (i = 0; i < NSLOT; i++) use (S.payload[i]); nsync_mu_runlock (&S.mu); } else rt_cover (CV_SKIPPED);
				if (nsync_mu_trylock (&S.mu)) { S.payload[1] += 1; nsync_mu_unlock (&S.mu); } break;
			case 2: nsync_mu_lock (&S.mu); nsync_mu_wait (&S.mu, &ready_cond, &S.ready, NULL); for (i = 0; i < NSLOT; i++) use (S.payload[i]); S.payload[2] += 1; nsync_mu_unlock (&S.mu); break;
			default: nsync_mu_rlock (&S.mu); while (!S.ready) nsync_cv_wait (&S.cv, &S.mu); for (i = 0; i < NSLOT; i++) use (S.payload[i]); nsync_mu_runlock (&S.mu); break;
			}
			rt_cover (CV_EDGES_MUTEX);
		}
		break;
	}
	rt_mark_nontrivial ();
}

static int setup (uint64_t seed) {
	int t;
	(void) seed;
	S.kind = (int) rt_param ("kind", -1); if (S.kind < 0) S.kind = (int) (rt_round () % 6);
	memset (S.payload, 0, sizeof (S.payload));
	memset ((void *) &S.once, 0, sizeof (S.once));
	nsync_mu_init (&S.mu); nsync_cv_init (&S.cv);
	S.note = nsync_note_new (NULL, nsync_time_no_deadline);
	S.child = nsync_note_new (S.note, nsync_time_no_deadline);
	S.ctr = nsync_counter_new (2);
	S.issued = 0; S.ready = 0;
	S.nthreads = S.kind == 2 ? 4 : 2 + (int) rt_rand_n (3);
	for (t = 0; t < RT_MAXT; t++) { S.variant[t] = (int) rt_rand_n (4); S.how[t] = (int) rt_rand_n (4); }
	if (S.kind == 4) S.how[0] = (int) rt_rand_n (3);
	rt_ev ((uint32_t) (S.kind | S.nthreads << 4 | S.how[1] << 8 | S.variant[0] << 12));
	return (S.nthreads);
}
static void check (void) { }
static void teardown (void) { nsync_note_free (S.child); nsync_note_free (S.note); nsync_counter_free (S.ctr); }
static void describe (FILE *f) { static const char *const kn[] = { "once", "note", "counter", "signal-without-mutex", "mutex", "child-note" };
	fprintf (f, "{\"edge\":\"%s\",\"threads\":%d,\"reader_methods\":[%d,%d,%d]}", kn[S.kind], S.nthreads, S.how[1], S.how[2], S.how[3]); }
static void pinit (void) {
	rt_cover_name (CV_READS, "payload_reads_after_an_edge"); rt_cover_name (CV_SKIPPED, "reads_skipped_no_edge_claimed"); rt_cover_name (CV_EDGES_ONCE, "once_edges"); rt_cover_name (CV_EDGES_NOTE, "note_edges");
	rt_cover_name (CV_EDGES_COUNTER, "counter_edges"); rt_cover_name (CV_EDGES_SIGNAL, "signal_edges"); rt_cover_name (CV_EDGES_MUTEX, "mutex_edges"); rt_cover_name (CV_EDGES_CHILD, "child_note_edges");
}
rt_scenario rt_scen = { "hb", "C03", 4, &pinit, &setup, &body, &check, &teardown, &describe, NULL, NULL, NULL };
