/* mu_mix: random bounded programs over every way a thread can come to hold an nsync_mu.

   Serves C01 (exclusion on every acquisition path), C02 (no lost lock wake-up, try-locks
   never block), C05 (timed / cancellable waits return for the stated reason, holding the
   lock in the entry mode), C06 (conditions evaluated only under the lock), and -- with
   --param debug=1 -- C16 (debug-state callers only observe).

   One mutex, two condition variables, two notes, four condition variables-of-state v[k].
   Each thread runs a program of sections: acquire (lock / rlock / trylock / rtrylock /
   none), up to four actions, release.  Every thread ends with an epilogue that makes every
   condition permanently true, broadcasts both cvs and notifies both notes, and thread 0
   never waits without a deadline: so, if nsync is correct, every program terminates, and a
   round that ends with a thread asleep is a lost wake-up of the kind named by the blocked
   operation.

   Contract rules the generator relies on (asserted where cheap):
     - a thread never re-acquires a mutex it holds; every acquisition is released by the
       acquirer; unlock_without_wakeup only ends sections that changed no condition state;
     - condition callbacks only read state protected by the mutex;
     - notes are freed by the main thread after every worker finished.  */
#include "sc.h"
#include <pthread.h>

#define NV 4
#define NCV 2
#define NNOTE 2
#define MAXSECT 10
#define MAXACT 4

enum { ACQ_LOCK, ACQ_RLOCK, ACQ_TRY, ACQ_RTRY, ACQ_NONE };
static const char *const acq_names[] = { "L", "R", "tL", "tR", "-" };
enum { A_SETV, A_CVWAIT, A_MUWAIT, A_WAITN, A_SIGNAL, A_BCAST, A_POINT, A_DEBUG, A_NOTIFY };
static const char *const act_names[] = { "set", "cvwait", "muwait", "waitn", "signal", "bcast", "point", "debug", "notify" };

struct act { int kind, k, timed, note, dl_ns, val, variant; };
struct sect { int acq, nact, nowake; struct act a[MAXACT]; };
struct prog { int nsect; struct sect s[MAXSECT]; };
struct alias { int *p; };

static struct {
	nsync_mu mu;
	nsync_cv cv[NCV];
	nsync_note note[NNOTE];
	nsync_counter ctr;
	int v[NV];
	int final_;
	int W, R;
	volatile long ca, cb;
	struct prog prog[RT_MAXT];
	struct alias al[RT_MAXT][NV];
	int nthreads;
	int debug_on;
	int churn;
	int wait_note[RT_MAXT];  /* 1 + index of the cancel note of a thread's current wait, 0 = none */
	int note_done[NNOTE];    /* an nsync_note_notify on the note has RETURNED */
	int note1_child;         /* note[1] is a child of note[0] */
	int qepi;                /* Mode B: every epilogue first waits for quiescence and checks that every sleeper sleeps legitimately */
	int dbg_spin[RT_MAXT], dbg_budget;
	int vsh[NV];             /* shadow of v[] kept with relaxed atomics (no happens-before edges), read by oracles that run outside the mutex: v[] itself stays PLAIN for ThreadSanitizer */
	int wait_var[RT_MAXT];   /* index of the variable a thread's current nsync_mu_wait depends on, -1 = none, -2 = NULL condition */
	int cv_foreign[NCV];   /* this round, waits on cv[j] pass harness lock/unlock callbacks (a foreign lock to nsync) */
} S;

enum { CV_ACQ = 0, CV_ACQ_SLEPT, CV_TRY_OK, CV_TRY_FAIL, CV_CVWAIT_0, CV_CVWAIT_TO, CV_CVWAIT_CANCEL, CV_MUWAIT_0, CV_MUWAIT_TO, CV_MUWAIT_CANCEL,
       CV_WAITN_READY, CV_WAITN_TO, CV_WAIT_SLEPT, CV_COND_EVALS, CV_DEBUG_CALLS, CV_NOWAKE, CV_SECTIONS, CV_UNTIMED, CV_CHURN, CV_IDLE, CV_QEPI, CV_DEBUG_IN_COND, CV_DEBUG_FROZEN };

/* ---- oracles ----------------------------------------------------------------------- */
static void enter (int writer, const char *how) {
	int isr;
	if (writer) {
		int w = sc_inc (&S.W), r = sc_get (&S.R);
		long a, b;
		if (w != 0 || r != 0) rt_violation ("exclusion", how, "writer entered via %s while %d writer(s) and %d reader(s) are inside (word=%#x)", how, w, r, sc_word (&S.mu.word));
		a = S.ca; b = S.cb;
		if (a != -b) rt_violation ("exclusion-canary", how, "writer via %s saw a torn invariant a=%ld b=%ld", how, a, b);
		S.ca = a + 1; S.cb = b - 1;
	} else {
		long a, b; int w;
		sc_inc (&S.R);
		w = sc_get (&S.W);
		if (w != 0) rt_violation ("exclusion", how, "reader entered via %s while %d writer(s) are inside (word=%#x)", how, w, sc_word (&S.mu.word));
		a = S.ca; b = S.cb;
		if (a != -b) rt_violation ("exclusion-canary", how, "reader via %s saw a torn invariant a=%ld b=%ld", how, a, b);
	}
	/* the library's own assertions: they panic (routed to a violation) if the word shows no holder of the right kind */
	if (writer) nsync_mu_assert_held (&S.mu); else nsync_mu_rassert_held (&S.mu);
	isr = nsync_mu_is_reader (&S.mu);
	if (isr != !writer) rt_violation ("mode", how, "%s returned holding the mutex in %s mode, expected %s mode (word=%#x)", how, isr ? "read" : "write", writer ? "write" : "read", sc_word (&S.mu.word));
}
static void leave (int writer) { if (writer) sc_dec (&S.W); else sc_dec (&S.R); }

static __thread int in_debug;       /* this thread is inside a debug-state call */
static void word_cb (int idx, int op, uint32_t old_v, uint32_t new_v, int ok) {
	(void) idx; (void) op; (void) old_v;
	if (ok && (new_v & SC_MU_WLOCK) != 0 && (new_v & SC_MU_RLOCK_FIELD) != 0)
		rt_violation ("exclusion-word", "wlock-and-readers", "mutex word %#x written with both the writer bit and a reader count (old %#x)", new_v, old_v);
	/* rounds with debug-state callers (Mode B): remember who holds the queue spinlock on behalf of a debug-state call; the adversary
	   below freezes that thread while others can run, so that releases, try-locks and queueing attempts land inside the call */
	if (in_debug && ok) { int self = rt_self (); if (self >= 0) { if (op <= 4 && !(old_v & 2u) && (new_v & 2u)) { S.dbg_spin[self] = 1; S.dbg_budget = 24; rt_cover (CV_DEBUG_FROZEN); } else if (!(new_v & 2u)) S.dbg_spin[self] = 0; } }
	/* C16: the debug-state functions only observe: apart from taking and releasing the queue spinlock they leave the word alone */
	if (ok && in_debug && op <= 4 && ((old_v ^ new_v) & ~2u) != 0)
		rt_violation ("debug-modified-word", "nsync_mu_debug_state_and_waiters", "a debug-state call changed the mutex word from %#x to %#x (more than the queue spinlock bit)", old_v, new_v);
}

static void debug_calls (int which, char *buf, int n);
static void cond_ctx (void) {
	int w = sc_get (&S.W);
	uint32_t word = sc_word (&S.mu.word);
	rt_cover (CV_COND_EVALS);
	if (w != 0) rt_violation ("cond-during-write", "callback", "a wait condition was evaluated while %d other thread(s) are inside a write section (word=%#x)", w, word);
	if ((word & SC_MU_ANY_LOCK) == 0) rt_violation ("cond-unheld", "callback", "a wait condition was evaluated while the mutex word %#x shows no holder", word);
	/* a debug-state call made from inside a condition (the evaluating thread holds the mutex, the queue spinlock is free and the queue
	   has been swapped into the unlocker's private list): no RT_OP, the enclosing operation's accounting must stay intact */
	if (S.debug_on && rt_rand_n (6) == 0) { char buf[120]; rt_cover (CV_DEBUG_IN_COND); debug_calls ((int) rt_rand_n (2), buf, (int) rt_rand_n (120)); }
}
static int cond_nz (const void *p) { cond_ctx (); return (*(const int *) p != 0); }
static int cond_nz2 (const void *p) { cond_ctx (); return (*(const int *) p != 0); }
static int cond_alias (const void *p) { cond_ctx (); return (*((const struct alias *) p)->p != 0); }
static int alias_eq (const void *a, const void *b) { return (((const struct alias *) a)->p == ((const struct alias *) b)->p); }

static void my_lock (void *m) { nsync_mu_lock ((nsync_mu *) m); }
static void my_unlock (void *m) { nsync_mu_unlock ((nsync_mu *) m); }
static void my_rlock (void *m) { nsync_mu_rlock ((nsync_mu *) m); }
static void my_runlock (void *m) { nsync_mu_runlock ((nsync_mu *) m); }

static nsync_time mk_deadline (const struct act *a) { return (a->timed ? rt_deadline_in (a->dl_ns) : nsync_time_no_deadline); }

static void check_reason (const char *api, int res, int timed, nsync_time dl, nsync_note note) {
	if (res == 0) return;
	if (res == ETIMEDOUT) {
		if (!timed) rt_violation ("return-reason", api, "%s returned ETIMEDOUT although no deadline was given", api);
		if (nsync_time_cmp (rt_now (), dl) < 0) rt_violation ("return-reason", api, "%s returned ETIMEDOUT at %lld ns, before its deadline %lld ns", api, (long long) rt_now_ns (), (long long) rt_ts_ns (dl));
	} else if (res == ECANCELED) {
		if (note == NULL) rt_violation ("return-reason", api, "%s returned ECANCELED although no note was given", api);
		if (!nsync_note_is_notified (note)) rt_violation ("return-reason", api, "%s returned ECANCELED but the note is not notified", api);
	} else rt_violation ("return-reason", api, "%s returned unexpected value %d", api, res);
}

/* ---- actions ----------------------------------------------------------------------- */
static void debug_calls (int which, char *buf, int n) {
	in_debug = 1;
	switch (which) {
	case 0: nsync_mu_debug_state (&S.mu, buf, n); break;
	case 1: nsync_mu_debug_state_and_waiters (&S.mu, buf, n); break;
	case 2: nsync_cv_debug_state (&S.cv[rt_rand_n (NCV)], buf, n); break;
	default: nsync_cv_debug_state_and_waiters (&S.cv[rt_rand_n (NCV)], buf, n); break;
	}
	in_debug = 0;
	{ int self = rt_self (); if (self >= 0) S.dbg_spin[self] = 0; }
}
static void do_debug (void) {
	static const char *const dn[4] = { "nsync_mu_debug_state", "nsync_mu_debug_state_and_waiters", "nsync_cv_debug_state", "nsync_cv_debug_state_and_waiters" };
	char buf[200]; int n = (int) rt_rand_n (200), which = (int) rt_rand_n (4);
	rt_cover (CV_DEBUG_CALLS);
	RT_OP (dn[which], debug_calls (which, buf, n));
}

/* returns 1 if the action changed condition state */
static int do_act (int tid, const struct act *a, int held, int writer) {
	int changed = 0;
	switch (a->kind) {
	case A_SETV:
		if (held && writer) {
			if (a->val || !S.final_) { S.v[a->k] = a->val; sc_set (&S.vsh[a->k], a->val); changed = 1; }
		}
		break;
	case A_POINT: rt_point ("section"); break;
	case A_SIGNAL: RT_OP ("nsync_cv_signal", nsync_cv_signal (&S.cv[a->k % NCV])); break;
	case A_BCAST: RT_OP ("nsync_cv_broadcast", nsync_cv_broadcast (&S.cv[a->k % NCV])); break;
	case A_NOTIFY: RT_OP ("nsync_note_notify", nsync_note_notify (S.note[a->k % NNOTE])); sc_set (&S.note_done[a->k % NNOTE], 1); break;
	case A_DEBUG: do_debug (); break;
	case A_CVWAIT: {
		nsync_cv *cv = &S.cv[a->k % NCV];
		nsync_note note = a->note ? S.note[a->note - 1] : NULL;
		nsync_time dl; int res = 0; const char *api;
		if (!held) break;
		if (!a->timed && note == NULL) { if (S.final_) break; rt_cover (CV_UNTIMED); }
		dl = mk_deadline (a);
		sc_set (&S.wait_note[tid], a->note);
		leave (writer);
		/* one cv <-> one lock: a cv is used either with the nsync_mu natively or, by every
		   waiter of the round, through the generic interface with harness callbacks
		   (wake_waiters requires all waiters of a cv to be associated with the same mutex) */
		switch (S.cv_foreign[a->k % NCV] ? 2 : (a->variant == 2 ? 0 : a->variant)) {
		case 1:
			if (!a->timed && note == NULL) { api = "nsync_cv_wait"; RT_OP (api, nsync_cv_wait (cv, &S.mu)); break; }
			/* fall through */
		case 0: api = "nsync_cv_wait_with_deadline"; RT_OP_DLS (api, a->timed ? rt_ts_ns (dl) : 0, note == NULL, res = nsync_cv_wait_with_deadline (cv, &S.mu, dl, note)); break;
		case 2: api = "nsync_cv_wait_with_deadline_generic"; RT_OP_DLS (api, a->timed ? rt_ts_ns (dl) : 0, note == NULL, res = nsync_cv_wait_with_deadline_generic (cv, &S.mu, writer ? &my_lock : &my_rlock, writer ? &my_unlock : &my_runlock, dl, note)); break;
		default: api = "nsync_cv_wait_with_deadline_generic_mu";
			RT_OP_DLS (api, a->timed ? rt_ts_ns (dl) : 0, note == NULL, res = nsync_cv_wait_with_deadline_generic (cv, &S.mu, writer ? (void (*) (void *)) &nsync_mu_lock : (void (*) (void *)) &nsync_mu_rlock,
					writer ? (void (*) (void *)) &nsync_mu_unlock : (void (*) (void *)) &nsync_mu_runlock, dl, note)); break;
		}
		if (rt_op_sleeps ()) { rt_cover (CV_WAIT_SLEPT); rt_mark_nontrivial (); }
		enter (writer, api);
		sc_set (&S.wait_note[tid], 0);
		check_reason (api, res, a->timed, dl, note);
		rt_cover (res == 0 ? CV_CVWAIT_0 : res == ETIMEDOUT ? CV_CVWAIT_TO : CV_CVWAIT_CANCEL);
		rt_ev (0x100u | (uint32_t) (res & 0xff));
		break; }
	case A_MUWAIT: {
		nsync_note note = a->note ? S.note[a->note - 1] : NULL;
		nsync_time dl; int res = 0, now_true; const char *api;
		int (*f) (const void *) = &cond_nz; const void *arg = &S.v[a->k]; int (*eq) (const void *, const void *) = NULL;
		if (!held) break;
		if (!a->timed && note == NULL) rt_cover (CV_UNTIMED);
		switch (a->variant) {
		case 1: f = &cond_nz2; break;
		case 2: f = &cond_alias; arg = &S.al[tid][a->k]; eq = &alias_eq; break;
		case 3: f = NULL; arg = NULL; break;
		default: break;
		}
		dl = mk_deadline (a);
		sc_set (&S.wait_var[tid], f == NULL ? -2 : a->k);
		sc_set (&S.wait_note[tid], a->note);
		leave (writer);
		if (!a->timed && note == NULL) { api = "nsync_mu_wait"; RT_OP (api, nsync_mu_wait (&S.mu, f, arg, eq)); }
		else { api = "nsync_mu_wait_with_deadline"; RT_OP_DLS (api, a->timed ? rt_ts_ns (dl) : 0, note == NULL, res = nsync_mu_wait_with_deadline (&S.mu, f, arg, eq, dl, note)); }
		if (rt_op_sleeps ()) { rt_cover (CV_WAIT_SLEPT); rt_mark_nontrivial (); }
		enter (writer, api);
		sc_set (&S.wait_var[tid], -1);
		sc_set (&S.wait_note[tid], 0);
		check_reason (api, res, a->timed, dl, note);
		now_true = (f == NULL) || S.v[a->k] != 0;
		if ((res == 0) != (now_true != 0)) rt_violation ("muwait-result", api, "%s returned %d but its condition is %s at return", api, res, now_true ? "true" : "false");
		rt_cover (res == 0 ? CV_MUWAIT_0 : res == ETIMEDOUT ? CV_MUWAIT_TO : CV_MUWAIT_CANCEL);
		rt_ev (0x200u | (uint32_t) (res & 0xff));
		break; }
	case A_WAITN: {
		struct nsync_waitable_s w[5]; struct nsync_waitable_s *pw[5]; int n = 0, i, res, cvpos;
		nsync_time dl;
		if (!held) break;
		if (!a->timed && a->note == 0) { if (S.final_) break; rt_cover (CV_UNTIMED); }
		/* objects: [counter that never reaches zero]* , the cv, [a note] */
		for (i = 0; i < a->variant && n < 3; i++) { w[n].v = S.ctr; w[n].funcs = &nsync_counter_waitable_funcs; n++; }
		cvpos = n; w[n].v = &S.cv[a->k % NCV]; w[n].funcs = &nsync_cv_waitable_funcs; n++;
		if (a->note) { w[n].v = S.note[a->note - 1]; w[n].funcs = &nsync_note_waitable_funcs; n++; }
		for (i = 0; i < n; i++) pw[i] = &w[i];
		dl = mk_deadline (a);
		sc_set (&S.wait_note[tid], a->note);
		leave (writer);
		RT_OP_DLS ("nsync_wait_n", a->timed ? rt_ts_ns (dl) : 0, a->note == 0, res = nsync_wait_n (&S.mu, writer ? &my_lock : &my_rlock, writer ? &my_unlock : &my_runlock, dl, n, pw));
		if (rt_op_sleeps ()) { rt_cover (CV_WAIT_SLEPT); rt_mark_nontrivial (); }
		enter (writer, "nsync_wait_n");
		sc_set (&S.wait_note[tid], 0);
		if (res < 0 || res > n) rt_violation ("waitn-result", "range", "nsync_wait_n returned %d for %d objects", res, n);
		if (res == n) {
			if (!a->timed) rt_violation ("return-reason", "nsync_wait_n", "nsync_wait_n returned count although no deadline was given");
			if (nsync_time_cmp (rt_now (), dl) < 0) rt_violation ("return-reason", "nsync_wait_n", "nsync_wait_n returned count before its deadline");
			rt_cover (CV_WAITN_TO);
		} else {
			if (res < cvpos) rt_violation ("waitn-result", "counter", "nsync_wait_n reported a counter with value %u as ready", nsync_counter_value (S.ctr));
			if (res > cvpos && !nsync_note_is_notified (S.note[a->note - 1])) rt_violation ("waitn-result", "note", "nsync_wait_n reported a note that is not notified as ready");
			rt_cover (CV_WAITN_READY);
		}
		rt_ev (0x300u | (uint32_t) res);
		break; }
	default: break;
	}
	return (changed);
}

static void run_section (int tid, const struct sect *s) {
	int held = 0, writer = 0, changed = 0, i, r;
	rt_cover (CV_SECTIONS);
	switch (s->acq) {
	case ACQ_LOCK: RT_OP ("nsync_mu_lock", nsync_mu_lock (&S.mu)); held = 1; writer = 1;
		if (rt_op_sleeps ()) { rt_cover (CV_ACQ_SLEPT); rt_mark_nontrivial (); } rt_cover (CV_ACQ); enter (1, "nsync_mu_lock"); rt_ev (0x10); break;
	case ACQ_RLOCK: RT_OP ("nsync_mu_rlock", nsync_mu_rlock (&S.mu)); held = 1; writer = 0;
		if (rt_op_sleeps ()) { rt_cover (CV_ACQ_SLEPT); rt_mark_nontrivial (); } rt_cover (CV_ACQ); enter (0, "nsync_mu_rlock"); rt_ev (0x11); break;
	case ACQ_TRY: case ACQ_RTRY: {
		const char *api = s->acq == ACQ_TRY ? "nsync_mu_trylock" : "nsync_mu_rtrylock";
		if (s->acq == ACQ_TRY) RT_OP (api, r = nsync_mu_trylock (&S.mu)); else RT_OP (api, r = nsync_mu_rtrylock (&S.mu));
		if (rt_op_sleeps () != 0) rt_violation ("trylock-blocked", api, "%s slept %u time(s)", api, rt_op_sleeps ());
		/* "never blocks": no sleep, and no open-ended spinning either (today's code needs at most 3 atomic steps; a bounded retry
		   would be legitimate, so the limit is generous) */
		if (rt_op_steps () > 48) rt_violation ("trylock-blocked", api, "%s took %u atomic steps: it spins instead of failing", api, rt_op_steps ());
		if (r) { held = 1; writer = (s->acq == ACQ_TRY); enter (writer, api); rt_cover (CV_TRY_OK); }
		else { rt_cover (CV_TRY_FAIL); rt_mark_nontrivial (); }
		rt_ev (0x20u | (uint32_t) (r != 0) | (s->acq == ACQ_TRY ? 2u : 0u));
		break; }
	default: break;
	}
	if (s->acq != ACQ_NONE && !held) return;
	for (i = 0; i < s->nact; i++) changed |= do_act (tid, &s->a[i], held, writer);
	if (held) {
		leave (writer);
		if (writer) {
			if (s->nowake && !changed) { rt_cover (CV_NOWAKE); RT_OP ("nsync_mu_unlock_without_wakeup", nsync_mu_unlock_without_wakeup (&S.mu)); }
			else RT_OP ("nsync_mu_unlock", nsync_mu_unlock (&S.mu));
		} else RT_OP ("nsync_mu_runlock", nsync_mu_runlock (&S.mu));
	}
}

static void legit_sleep_check (const char *when);
static void epilogue (void) {
	int i;
	if (S.qepi) { rt_wait_quiescent (); rt_cover (CV_QEPI); legit_sleep_check ("quiescent instant before a thread's epilogue"); }
	/* make every wait terminate */
	RT_OP ("nsync_mu_lock", nsync_mu_lock (&S.mu));
	enter (1, "nsync_mu_lock");
	S.final_ = 1;
	for (i = 0; i < NV; i++) { S.v[i] = 1; sc_set (&S.vsh[i], 1); }
	leave (1);
	RT_OP ("nsync_mu_unlock", nsync_mu_unlock (&S.mu));
	for (i = 0; i < NCV; i++) RT_OP ("nsync_cv_broadcast", nsync_cv_broadcast (&S.cv[i]));
	for (i = 0; i < NNOTE; i++) { RT_OP ("nsync_note_notify", nsync_note_notify (S.note[i])); sc_set (&S.note_done[i], 1); }
}

/* thread churn (--param churn=1): the sections of a program are run by a succession of
   short-lived pthreads, each taking over the worker's slot; every one of them gets its waiter
   struct from the library's pool and returns it from its thread-exit destructor */
struct chunk { int tid, from, to, last; };
static void *chunk_main (void *a) {
	struct chunk *c = (struct chunk *) a;
	int i;
	rt_adopt (c->tid);
	for (i = c->from; i < c->to; i++) run_section (c->tid, &S.prog[c->tid].s[i]);
	if (c->last) epilogue ();
	return (NULL);
}

static void body (int tid) {
	const struct prog *p = &S.prog[tid];
	int i;
	if (S.churn) {
		for (i = 0; i < p->nsect; ) {
			struct chunk c; pthread_t t;
			c.tid = tid; c.from = i; c.to = i + 1 + (int) rt_rand_n (3); if (c.to > p->nsect) c.to = p->nsect; c.last = (c.to == p->nsect);
			if (pthread_create (&t, NULL, &chunk_main, &c) != 0) rt_fatal ("pthread_create failed");
			pthread_join (t, NULL);
			rt_cover (CV_CHURN);
			i = c.to;
		}
		return;
	}
	for (i = 0; i < p->nsect; i++) run_section (tid, &p->s[i]);
	epilogue ();
}

/* Mode B oracle at instants where NOTHING is runnable (idle: only timers are pending; quiescent: not even those).
   Every sleeping thread must be legitimately asleep at such an instant:
     - a thread asleep in a lock acquisition on S.mu while the word shows no holder and no spinlock sleeps on a free
       mutex with nobody responsible for waking it (C02);
     - a thread asleep in nsync_mu_wait whose condition is true while the mutex is free was not woken by the release that
       followed the change (C06) -- even if its own deadline would rescue it later;
     - a thread asleep inside a wait whose cancel note has been notified (nsync_note_notify on it or its parent has
       RETURNED) "needs no further wake-up" (C05) -- even if a later signal, condition change or deadline would rescue it.  */
static int note_is_done (int n) { return (sc_get (&S.note_done[n]) || (n == 1 && S.note1_child && sc_get (&S.note_done[0]))); }
static void legit_sleep_check (const char *when) {
	uint32_t word = sc_word (&S.mu.word);
	int t, mu_free = ((word & (SC_MU_ANY_LOCK | 2u)) == 0);
	for (t = 0; t < S.nthreads; t++) {
		const char *at; int n, on_mu;
		if (!rt_thread_blocked (t)) continue;
		at = rt_thread_at (t);
		on_mu = (!strcmp (at, "nsync_mu_lock_slow_") && rt_thread_lock_addr (t) == (const volatile void *) &S.mu.word);
		if (mu_free && !rt_thread_timed (t) && on_mu)
			rt_violation ("asleep-on-free-mutex", rt_thread_op (t), "%s: nothing can run, the mutex word %#x shows no holder, yet thread %d is asleep in %s waiting for it", when, word, t, rt_thread_op (t));
		if (mu_free && !strcmp (at, "nsync_mu_wait_with_deadline")) {
			int k = sc_get (&S.wait_var[t]);
			if (k >= 0 && sc_get (&S.vsh[k]) != 0)
				rt_violation ("cond-true-asleep", rt_thread_op (t), "%s: nothing can run, the mutex is free (word %#x) and v[%d] is true, yet thread %d is still asleep in %s on that condition", when, word, k, t, rt_thread_op (t));
		}
		n = sc_get (&S.wait_note[t]);
		if (n > 0 && note_is_done (n - 1) && strcmp (at, "nsync_mu_lock_slow_") != 0)
			rt_violation ("asleep-although-cancelled", rt_thread_op (t), "%s: nothing can run, nsync_note_notify on the cancel note of thread %d's %s (or on its parent) has returned, yet the thread is still asleep inside the wait (last step in %s)", when, t, rt_thread_op (t), at);
	}
}
static void idle_check (void) { rt_cover (CV_IDLE); legit_sleep_check ("idle instant (only deadlines are pending)"); }

static int adversary (int self, int forced, const int *run, int n) {
	int i, frozen = 0, other = -1;
	for (i = 0; i < n; i++) { if (S.dbg_spin[run[i]]) frozen++; else if (other < 0 || (run[i] == self && !forced)) other = run[i]; }
	if (frozen == 0 || other < 0 || S.dbg_budget <= 0) return (-1);
	S.dbg_budget--;
	return (other);
}

/* ---- generation -------------------------------------------------------------------- */
static int pick_dl (void) {
	static const int b_dl[] = { 0, 100, 400, 1000, 3000, 10000, 100000, 1000000 };
	if (rt_mode_b ()) return (b_dl[rt_rand_n (8)]);
	return ((int) rt_rand_n (300000));
}

/* Swarm generation: every round draws its own feature weights, so that some rounds are dominated by (or entirely lack) a
   kind of acquisition, action, deadline scale, timed/cancellable share: a uniform mix rarely produces e.g. a storm of readers
   around reader-mode timed conditional waits.  Half of the rounds use the plain weights.  */
static struct { int acq_w[5], act_w[9], timed_pct, note_pct, dl_scale, nowake_of_4; } SW;
static const int acq_base[5] = { 35, 30, 10, 10, 15 };                      /* LOCK RLOCK TRY RTRY NONE */
static const int act_base[9] = { 18, 20, 24, 10, 8, 6, 4, 6, 4 };          /* SETV CVWAIT MUWAIT WAITN SIGNAL BCAST NOTIFY POINT DEBUG */
static int weighted (const int *w, int n) {
	int i, tot = 0; unsigned r;
	for (i = 0; i < n; i++) tot += w[i];
	r = rt_rand_n ((unsigned) tot);
	for (i = 0; i < n; i++) { if (r < (unsigned) w[i]) return (i); r -= (unsigned) w[i]; }
	return (n - 1);
}
static void gen_swarm (void) {
	static const int factor[4] = { 0, 1, 1, 4 };
	int i, plain = (rt_rand_n (2) == 0);
	for (i = 0; i < 5; i++) SW.acq_w[i] = acq_base[i] * (plain ? 1 : factor[rt_rand_n (4)]);
	for (i = 0; i < 9; i++) SW.act_w[i] = act_base[i] * (plain ? 1 : factor[rt_rand_n (4)]);
	if (SW.acq_w[0] + SW.acq_w[1] + SW.acq_w[2] + SW.acq_w[3] == 0) SW.acq_w[rt_rand_n (2)] = 30;   /* some blocking acquisition */
	if (!S.debug_on) SW.act_w[8] = 0; else SW.act_w[8] = SW.act_w[8] * 3 + 6;    /* rounds with debug-state callers: plenty of calls */
	if (SW.act_w[0] + SW.act_w[1] + SW.act_w[2] + SW.act_w[3] + SW.act_w[7] == 0) SW.act_w[7] = 6;
	SW.timed_pct = plain ? 70 : (int) rt_rand_n (3) * 35 + 30;       /* 30 / 65 / 100 */
	SW.note_pct = plain ? 30 : (int) rt_rand_n (3) * 30;              /* 0 / 30 / 60 */
	SW.dl_scale = plain ? 0 : (int) rt_rand_n (3);                     /* 0 any, 1 short, 2 long */
	SW.nowake_of_4 = plain ? 1 : 1 + (int) rt_rand_n (3);            /* share of write sections that end with nsync_mu_unlock_without_wakeup when they changed nothing */
	rt_ev ((uint32_t) (plain | SW.timed_pct << 1 | SW.note_pct << 9 | SW.dl_scale << 17));
}
static int swarm_dl (void) {
	int d = pick_dl ();
	if (SW.dl_scale == 1 && rt_mode_b ()) d = (int) rt_rand_n (9) * 100;
	else if (SW.dl_scale == 1) d = (int) rt_rand_n (30000);
	else if (SW.dl_scale == 2 && rt_mode_b () && d < 3000) d = 100000;
	return (d);
}

static void gen_act (int tid, struct act *a, int acq) {
	static const int kinds[9] = { A_SETV, A_CVWAIT, A_MUWAIT, A_WAITN, A_SIGNAL, A_BCAST, A_NOTIFY, A_POINT, A_DEBUG };
	memset (a, 0, sizeof (*a));
	a->k = (int) rt_rand_n (NV);
	if (acq == ACQ_NONE) {
		int w[9] = { 0, 0, 0, 0, 1, 1, 1, 1, 0 }; w[8] = S.debug_on ? 1 : 0;
		a->kind = kinds[weighted (w, 9)];
		return;
	}
	a->kind = kinds[weighted (SW.act_w, 9)];
	if (a->kind == A_SETV) a->val = (int) rt_rand_n (2);
	if (a->kind == A_CVWAIT || a->kind == A_MUWAIT || a->kind == A_WAITN) {
		a->timed = (tid == 0) ? 1 : ((int) rt_rand_n (100) < SW.timed_pct);
		a->note = ((int) rt_rand_n (100) < SW.note_pct) ? 1 + (int) rt_rand_n (NNOTE) : 0;
		a->dl_ns = swarm_dl ();
		a->variant = (int) rt_rand_n (4);
		if (a->kind == A_MUWAIT && a->variant == 3 && rt_rand_n (4) != 0) a->variant = 0;   /* NULL condition only rarely */
	}
}

static int setup (uint64_t seed) {
	int t, i, j, n;
	(void) seed;
	memset (&S.mu, 0, sizeof (S.mu));
	for (i = 0; i < NCV; i++) nsync_cv_init (&S.cv[i]);
	nsync_mu_init (&S.mu);
	S.debug_on = (int) rt_param ("debug", 0);
	S.churn = (int) rt_param ("churn", 0);
	S.note[0] = nsync_note_new (NULL, nsync_time_no_deadline);
	S.note1_child = !rt_rand_n (2);
	S.note[1] = !S.note1_child ? nsync_note_new (NULL, rt_deadline_in (pick_dl ())) : nsync_note_new (S.note[0], nsync_time_no_deadline);
	for (i = 0; i < NNOTE; i++) S.note_done[i] = 0;
	S.ctr = nsync_counter_new (1);
	for (i = 0; i < NV; i++) { S.v[i] = (int) rt_rand_n (2); S.vsh[i] = S.v[i]; }
	for (i = 0; i < NCV; i++) S.cv_foreign[i] = (rt_rand_n (4) == 0);
	for (i = 0; i < RT_MAXT; i++) { S.wait_var[i] = -1; S.wait_note[i] = 0; }
	S.qepi = rt_mode_b () && rt_rand_n (2);
	S.final_ = 0; S.W = 0; S.R = 0; S.ca = 0; S.cb = 0; memset (S.dbg_spin, 0, sizeof (S.dbg_spin)); S.dbg_budget = 0;
	{ int maxt = (int) rt_param ("maxthreads", rt_mode_b () ? 4 : 6);
	  if (maxt > rt_scen.max_threads) maxt = rt_scen.max_threads;
	  n = 2 + (int) rt_rand_n ((unsigned) (maxt - 1)); }
	S.nthreads = n;
	gen_swarm ();
	for (t = 0; t < n; t++) {
		struct prog *p = &S.prog[t];
		p->nsect = 3 + (int) rt_rand_n (MAXSECT - 3);
		for (i = 0; i < p->nsect; i++) {
			struct sect *s = &p->s[i];
			static const int acqs[5] = { ACQ_LOCK, ACQ_RLOCK, ACQ_TRY, ACQ_RTRY, ACQ_NONE };
			s->acq = acqs[weighted (SW.acq_w, 5)];
			s->nact = (int) rt_rand_n (MAXACT + 1);
			if (s->acq == ACQ_NONE && s->nact == 0) s->nact = 1;
			s->nowake = (int) rt_rand_n (4) < SW.nowake_of_4;
			for (j = 0; j < s->nact; j++) { gen_act (t, &s->a[j], s->acq); rt_ev ((uint32_t) (s->acq * 16 + s->a[j].kind + 1000 * s->a[j].timed + 77 * s->a[j].variant)); }
		}
		for (i = 0; i < NV; i++) S.al[t][i].p = &S.v[i];
	}
	rt_watch_word (0, &S.mu.word, &word_cb);
	return (n);
}

static void check (void) {
	if (sc_get (&S.W) != 0 || sc_get (&S.R) != 0) rt_fatal ("shadow counters not zero at round end: W=%d R=%d", S.W, S.R);
	if ((sc_word (&S.mu.word) & (SC_MU_ANY_LOCK | 2u)) != 0) rt_violation ("final-word", "held", "after every thread finished the mutex word is %#x (lock or spinlock bits set)", sc_word (&S.mu.word));
}

static void teardown (void) {
	rt_watch_word (0, NULL, NULL);
	nsync_note_free (S.note[1]);
	nsync_note_free (S.note[0]);
	nsync_counter_free (S.ctr);
}

static void describe (FILE *f) {
	int t, i, j;
	fprintf (f, "{\"threads\":%d,\"cv_foreign_lock\":[%d,%d],\"programs\":[", S.nthreads, S.cv_foreign[0], S.cv_foreign[1]);
	for (t = 0; t < S.nthreads; t++) {
		fprintf (f, "%s\"", t ? "," : "");
		for (i = 0; i < S.prog[t].nsect; i++) {
			const struct sect *s = &S.prog[t].s[i];
			fprintf (f, "%s%s(", i ? " " : "", acq_names[s->acq]);
			for (j = 0; j < s->nact; j++) {
				const struct act *a = &s->a[j];
				fprintf (f, "%s%s%d", j ? "," : "", act_names[a->kind], a->k);
				if (a->kind == A_SETV) fprintf (f, "=%d", a->val);
				if (a->kind == A_CVWAIT || a->kind == A_MUWAIT || a->kind == A_WAITN) fprintf (f, "/v%d%s%s", a->variant, a->timed ? "/t" : "", a->note ? "/n" : "");
			}
			fprintf (f, ")%s", s->nowake ? "!" : "");
		}
		fprintf (f, "\"");
	}
	fprintf (f, "]}");
}

static void dump_state (FILE *f) {
	fprintf (f, "{\"mu_word\":\"%#x\",\"cv_words\":[\"%#x\",\"%#x\"],\"v\":[%d,%d,%d,%d],\"final\":%d,\"shadow_W\":%d,\"shadow_R\":%d}",
		 sc_word (&S.mu.word), sc_word (&S.cv[0].word), sc_word (&S.cv[1].word), S.v[0], S.v[1], S.v[2], S.v[3], S.final_, S.W, S.R);
}

static void pinit (void) {
	if (rt_param ("debug", 0)) rt_scen.adversary = &adversary;    /* only the rounds with debug-state callers are steered (and lose the store stalls) */
	rt_cover_name (CV_ACQ, "blocking_acquisitions"); rt_cover_name (CV_ACQ_SLEPT, "acquisitions_that_slept");
	rt_cover_name (CV_TRY_OK, "trylock_ok"); rt_cover_name (CV_TRY_FAIL, "trylock_failed");
	rt_cover_name (CV_CVWAIT_0, "cvwait_woken"); rt_cover_name (CV_CVWAIT_TO, "cvwait_timedout"); rt_cover_name (CV_CVWAIT_CANCEL, "cvwait_cancelled");
	rt_cover_name (CV_MUWAIT_0, "muwait_true"); rt_cover_name (CV_MUWAIT_TO, "muwait_timedout"); rt_cover_name (CV_MUWAIT_CANCEL, "muwait_cancelled");
	rt_cover_name (CV_WAITN_READY, "waitn_ready"); rt_cover_name (CV_WAITN_TO, "waitn_timedout"); rt_cover_name (CV_WAIT_SLEPT, "waits_that_slept");
	rt_cover_name (CV_COND_EVALS, "condition_evaluations"); rt_cover_name (CV_DEBUG_CALLS, "debug_calls"); rt_cover_name (CV_DEBUG_FROZEN, "debug_calls_frozen_while_holding_the_queue_spinlock"); rt_cover_name (CV_DEBUG_IN_COND, "debug_calls_made_inside_a_condition_evaluation"); rt_cover_name (CV_NOWAKE, "unlock_without_wakeup");
	rt_cover_name (CV_SECTIONS, "sections"); rt_cover_name (CV_UNTIMED, "untimed_waits"); rt_cover_name (CV_CHURN, "short_lived_threads"); rt_cover_name (CV_IDLE, "idle_instants_checked"); rt_cover_name (CV_QEPI, "quiescent_instants_checked_before_an_epilogue");
}

rt_scenario rt_scen = { "mu_mix", "C01", 6, &pinit, &setup, &body, &check, &teardown, &describe, NULL, &dump_state, NULL, &idle_check };
