/* notes: trees of nsync_note -- C08 (one-way flag set by notify / deadline / ancestor) and
   C09 (concurrent notify / poll / wait / create-child / free on related notes is safe).

   setup (single threaded): a random tree of up to 7 notes (depth <= 3) with own deadlines
   none / past / near / far.  Some notes are *owned* by one worker: only the owner operates
   on an owned note directly (so that it may free it: "each note being freed only when no
   other thread uses that same note"), everybody may operate on the unowned ones, and the
   library itself reaches owned notes through their relatives (notify of a parent, free of
   a parent or child).  Workers run 3..6 operations: notify, is_notified, timed note_wait,
   cancellable cv wait, untimed note_wait (only in the subtree of the "doomed" note that
   thread 0 notifies as its last operation), create a child (kept alive or freed), free an
   owned note.  --param free=0 keeps the tree static (pure C08 rounds).

   History oracles, evaluated by the main thread after all workers finished, from per-thread
   logs {note, kind, result, call stamp, return stamp, clock at return}:
     O1 monotone     no "not notified" observation begins after a "notified" one ended
     O2 justified    each "notified" observation is preceded by the start of a notify on the
                     note or an (original) ancestor, or the note's expiry had been reached
     O3 after-notify once nsync_note_notify(n) returned, every later observation of n is true
     O4 propagation  at the end, every live note with a completed notify on an original
                     ancestor-or-self, or whose expiry passed, is notified  (this is also the
                     adoption clause of C09: grandchildren of a freed note are still reached)
     O5 untriggered  a live note with no notify started on any original ancestor-or-self and an
                     expiry in the future is not notified
     O6 expiry       nsync_note_expiry == min(deadlines to the root); a mismatch is accepted
                     only when the stored expiry is not in the future
   plus: every thread finishes (a waiter left asleep, a notifier or freer stalled = deadlock
   rule), and ASan (use of a note after its nsync_note_free returned).  */
#include "sc.h"

#define NB 7            /* base notes */
#define NN 24           /* base + dynamic */
#define MAXOPS 6
#define MAXLOG 24

enum { K_NOTIFY, K_ISNOT, K_WAIT_T, K_WAIT_U, K_CVCANCEL, K_NEWCHILD, K_FREE, K_NKINDS };
static const char *const kname[] = { "notify", "is_notified", "wait_timed", "wait_untimed", "cv_cancel", "new_child", "free" };
struct op { int kind, x, keep, dlk, sub, dl_ns; };
struct ev { int note, kind, res; uint64_t call, ret; int64_t at_ns; };

static struct {
	nsync_note N[NN];
	int parent_of[NN];          /* original parent (index) or -1 */
	int owner[NN];              /* 0 = unowned, t+1 = owned by worker t */
	int alive[NN];              /* 1 = created and not freed */
	int dlk[NN];
	nsync_time own_dl[NN];
	int nbase, nthreads, doomed, allow_free;
	struct op prog[RT_MAXT][MAXOPS + 1]; int nops[RT_MAXT];
	struct ev log[RT_MAXT][MAXLOG]; int nlog[RT_MAXT];
	int next_dyn[RT_MAXT];
	int notify_done[NN];        /* an nsync_note_notify on the note has RETURNED */
	int wait_on[RT_MAXT];       /* 1 + index of the note the thread is currently waiting on (nsync_note_wait / cancellable cv wait), 0 = none */
	int busy;                   /* threads currently inside notify / new / free (the tree is only required to be settled when this is 0) */
} S;

enum { CV_OBS_TRUE = 0, CV_OBS_FALSE, CV_NOTIFIES, CV_FREES, CV_CHILDREN, CV_WAIT_SLEPT, CV_CANCELS, CV_FREED_WITH_CHILDREN, CV_EXPIRY_PAST_MISMATCH, CV_UNTIMED, CV_O4_CHECKED, CV_O5_CHECKED, CV_BORN_NOTIFIED, CV_IDLE, CV_DIRECTED };

static int is_anc_or_self (int a, int n) { for (; n >= 0; n = S.parent_of[n]) if (n == a) return (1); return (0); }

static nsync_time kind_deadline (int dlk, int dl_ns) {
	switch (dlk) {
	case 2: return (nsync_time_s_ns (5, 0));                              /* long past */
	case 3: return (rt_deadline_in (dl_ns));                               /* near */
	case 4: return (rt_deadline_in (1000000000ll * 1000000ll));            /* far */
	default: return (nsync_time_no_deadline);
	}
}

static struct ev *log_begin (int tid, int note, int kind) {
	struct ev *e;
	if (S.nlog[tid] >= MAXLOG) rt_fatal ("log overflow");
	e = &S.log[tid][S.nlog[tid]++];
	e->note = note; e->kind = kind; e->res = -1; e->ret = 0; e->at_ns = 0;
	e->call = rt_stamp ();
	return (e);
}
static void log_end (struct ev *e, int res) {
	e->res = res; e->at_ns = rt_now_ns (); e->ret = rt_stamp ();
	if (e->kind != K_NOTIFY) { rt_cover (res ? CV_OBS_TRUE : CV_OBS_FALSE); rt_ev ((uint32_t) (e->note << 8 | e->kind << 4 | (res & 1))); }
}

static void do_op (int tid, const struct op *o) {
	int x = o->x;
	struct ev *e;
	if (x < 0 || !S.alive[x]) return;
	switch (o->kind) {
	case K_NOTIFY:
		e = log_begin (tid, x, K_NOTIFY);
		sc_inc (&S.busy);
		RT_OP ("nsync_note_notify", nsync_note_notify (S.N[x]));
		sc_set (&S.notify_done[x], 1); sc_dec (&S.busy);
		log_end (e, 1); rt_cover (CV_NOTIFIES);
		/* C08: "when nsync_note_notify returns the note itself is notified" */
		e = log_begin (tid, x, K_ISNOT);
		{ int q; RT_OP ("nsync_note_is_notified", q = nsync_note_is_notified (S.N[x])); log_end (e, q);
		  if (!q) rt_violation ("notify-returned-unnotified", "nsync_note_notify", "nsync_note_is_notified is false immediately after nsync_note_notify returned on the same note"); }
		break;
	case K_ISNOT: { int q;
		e = log_begin (tid, x, K_ISNOT);
		RT_OP ("nsync_note_is_notified", q = nsync_note_is_notified (S.N[x]));
		log_end (e, q);
		break; }
	case K_WAIT_T: case K_WAIT_U: { int q; nsync_time dl = o->kind == K_WAIT_U ? nsync_time_no_deadline : rt_deadline_in (o->dl_ns);
		if (o->kind == K_WAIT_U) rt_cover (CV_UNTIMED);
		e = log_begin (tid, x, o->kind);
		sc_set (&S.wait_on[tid], x + 1);
		RT_OP ("nsync_note_wait", q = nsync_note_wait (S.N[x], dl));
		sc_set (&S.wait_on[tid], 0);
		if (rt_op_sleeps ()) { rt_cover (CV_WAIT_SLEPT); rt_mark_nontrivial (); }
		log_end (e, q);
		if (!q && o->kind == K_WAIT_U) rt_violation ("wait-result", "nsync_note_wait", "nsync_note_wait without deadline returned 0");
		if (!q && nsync_time_cmp (rt_now (), dl) < 0) rt_violation ("wait-result", "nsync_note_wait", "nsync_note_wait returned 0 before its deadline");
		break; }
	case K_CVCANCEL: { nsync_mu m; nsync_cv c; int r; nsync_time dl = rt_deadline_in (o->dl_ns);
		nsync_mu_init (&m); nsync_cv_init (&c);
		nsync_mu_lock (&m);
		e = log_begin (tid, x, K_CVCANCEL);
		sc_set (&S.wait_on[tid], x + 1);
		RT_OP ("nsync_cv_wait_with_deadline", r = nsync_cv_wait_with_deadline (&c, &m, dl, S.N[x]));
		sc_set (&S.wait_on[tid], 0);
		if (rt_op_sleeps ()) { rt_cover (CV_WAIT_SLEPT); rt_mark_nontrivial (); }
		if (r == ECANCELED) { log_end (e, 1); rt_cover (CV_CANCELS); }
		else { S.nlog[tid]--; if (r == ETIMEDOUT && nsync_time_cmp (rt_now (), dl) < 0) rt_violation ("wait-result", "nsync_cv_wait_with_deadline", "ETIMEDOUT before the deadline"); }
		nsync_mu_unlock (&m);
		break; }
	case K_NEWCHILD: { int c = S.next_dyn[tid], q; nsync_note n;
		if (c >= NB + 2 * tid + 2 || c >= NN) break;     /* two dynamic slots per thread */
		sc_inc (&S.busy);
		S.own_dl[c] = kind_deadline (o->dlk, o->dl_ns);
		S.dlk[c] = o->dlk;
		RT_OP ("nsync_note_new", n = nsync_note_new (S.N[x], S.own_dl[c]));
		if (n == NULL) rt_fatal ("nsync_note_new returned NULL");
		S.N[c] = n; S.parent_of[c] = x; S.owner[c] = tid + 1;
		__atomic_store_n (&S.alive[c], 1, __ATOMIC_RELEASE);
		S.next_dyn[tid] = c + 1;
		rt_cover (CV_CHILDREN);
		e = log_begin (tid, c, K_ISNOT);
		RT_OP ("nsync_note_is_notified", q = nsync_note_is_notified (n));
		log_end (e, q);
		if (q) rt_cover (CV_BORN_NOTIFIED);
		if (o->sub == 1) { e = log_begin (tid, c, K_NOTIFY); RT_OP ("nsync_note_notify", nsync_note_notify (n)); sc_set (&S.notify_done[c], 1); log_end (e, 1); }
		if (!o->keep) {
			RT_OP ("nsync_note_free", nsync_note_free (n));
			S.alive[c] = 0; rt_cover (CV_FREES);
		}
		sc_dec (&S.busy);
		break; }
	case K_FREE: { int i, kids = 0;
		if (S.owner[x] != tid + 1) rt_fatal ("free of a note not owned");
		for (i = 0; i < NN; i++) if (__atomic_load_n (&S.alive[i], __ATOMIC_ACQUIRE) && S.parent_of[i] == x) kids++;
		if (kids) rt_cover (CV_FREED_WITH_CHILDREN);
		sc_inc (&S.busy);
		RT_OP ("nsync_note_free", nsync_note_free (S.N[x]));
		sc_dec (&S.busy);
		S.alive[x] = 0; rt_cover (CV_FREES); rt_mark_nontrivial ();
		break; }
	default: break;
	}
}

/* Mode B idle oracle: nothing is runnable, only deadlines are pending, and no thread is inside a notify / new / free.
   Then every notification that has returned has reached all descendants and released every thread waiting on them:
   a waiter on a note with a completed notify on itself or an original ancestor may not still be asleep (C08),
   even if its own deadline would rescue it later.  */
static void idle_check (void) {
	int t, a;
	rt_cover (CV_IDLE);
	if (sc_get (&S.busy) != 0) return;
	for (t = 0; t < S.nthreads; t++) {
		int x = sc_get (&S.wait_on[t]) - 1;
		if (x < 0 || !rt_thread_blocked (t)) continue;
		for (a = 0; a < NN; a++) if (sc_get (&S.notify_done[a]) && is_anc_or_self (a, x))
			rt_violation ("waiter-asleep-after-notify", rt_thread_op (t), "idle instant (only deadlines pending, no notify/new/free in progress): nsync_note_notify on note %d has returned, yet thread %d is still asleep in %s on note %d%s", a, t, rt_thread_op (t), x, a == x ? "" : " (a descendant)");
	}
}

static void body (int tid) {
	int i;
	for (i = 0; i < S.nops[tid]; i++) { do_op (tid, &S.prog[tid][i]); rt_point ("between-ops"); }
}

static int in_doomed_subtree (int x) { return (S.doomed >= 0 && is_anc_or_self (S.doomed, x)); }

static int setup (uint64_t seed) {
	int x, t, i, maxt = (int) rt_param ("maxthreads", 4), kw[K_NKINDS], wsum = 0, directed;
	(void) seed;
	S.allow_free = (int) rt_param ("free", 1);
	directed = 0;
	memset (S.notify_done, 0, sizeof (S.notify_done)); memset (S.wait_on, 0, sizeof (S.wait_on)); S.busy = 0;
	S.nbase = 3 + (int) rt_rand_n (NB - 2);
	S.nthreads = 2 + (int) rt_rand_n ((unsigned) (maxt - 1));
	/* directed "family" rounds (one in four when frees are allowed): a chain R(0) -> P(1) -> C(2) -> G(3) whose members P, C, G are
	   owned by three different threads, each of which ends its program by (maybe notifying and) FREEING its note, while thread 0
	   first notifies R or P: notification of an ancestor, disconnection of a grandchild and frees of the generations in between
	   overlap in every order (the shape of D3, D6, D8 and of several seeded changes) */
	directed = S.allow_free && S.nthreads >= 3 && rt_rand_n (4) == 0;
	if (directed && S.nbase < 4) S.nbase = 4;
	for (x = 0; x < NN; x++) { S.N[x] = NULL; S.parent_of[x] = -1; S.owner[x] = 0; S.alive[x] = 0; S.dlk[x] = 0; S.own_dl[x] = nsync_time_no_deadline; }
	for (x = 0; x < S.nbase; x++) {
		nsync_time m, ex; int p, depth = 0;
		if (x > 0) { do { p = (int) rt_rand_n ((unsigned) x); depth = 0; for (i = p; i >= 0; i = S.parent_of[i]) depth++; } while (depth >= 3); if (directed && x <= 3) p = x - 1; S.parent_of[x] = p; }
		S.dlk[x] = (int) rt_rand_n (6); if (S.dlk[x] == 5) S.dlk[x] = 0;
		S.own_dl[x] = kind_deadline (S.dlk[x], rt_mode_b () ? 200 + (int) rt_rand_n (20000) : 30000 + (int) rt_rand_n (400000));
		S.N[x] = nsync_note_new (S.parent_of[x] < 0 ? NULL : S.N[S.parent_of[x]], S.own_dl[x]);
		S.alive[x] = 1;
		/* O6 */
		m = S.own_dl[x];
		for (p = S.parent_of[x]; p >= 0; p = S.parent_of[p]) if (nsync_time_cmp (S.own_dl[p], m) < 0) m = S.own_dl[p];
		ex = nsync_note_expiry (S.N[x]);
		if (nsync_time_cmp (ex, m) != 0) {
			if (nsync_time_cmp (ex, rt_now ()) > 0) rt_violation ("expiry", "nsync_note_expiry", "note %d: nsync_note_expiry is %lld ns, the minimum deadline on the path to the root is %lld ns, and the stored value is still in the future", x, (long long) rt_ts_ns (ex), (long long) rt_ts_ns (m));
			rt_cover (CV_EXPIRY_PAST_MISMATCH);
		}
		rt_ev ((uint32_t) (S.parent_of[x] + 1) | (uint32_t) S.dlk[x] << 4);
	}
	if (S.allow_free) for (i = (int) rt_rand_n (4); i > 0; i--) { x = (int) rt_rand_n ((unsigned) S.nbase); if (!S.owner[x]) S.owner[x] = 1 + (int) rt_rand_n ((unsigned) S.nthreads); }
	if (directed) { S.owner[0] = 0; S.owner[1] = 1; S.owner[2] = 2; S.owner[3] = 3; rt_cover (CV_DIRECTED); }
	S.doomed = -1;
	for (i = 0; i < 8 && S.doomed < 0; i++) { x = (int) rt_rand_n ((unsigned) S.nbase); if (!S.owner[x] && rt_rand_n (3)) S.doomed = x; }
	/* swarm: half of the rounds draw their own operation weights (x0, x1, x1, x4), so that some rounds are dominated by
	   notify / free / new-child traffic on a deep tree and others lack whole kinds of operation */
	{ static const int base[K_NKINDS] = { 22, 20, 12, 8, 10, 15, 13 }; static const int factor[4] = { 0, 1, 1, 4 }; int plain = (rt_rand_n (2) == 0);
	  wsum = 0; for (i = 0; i < K_NKINDS; i++) { kw[i] = base[i] * (plain ? 1 : factor[rt_rand_n (4)]); wsum += kw[i]; }
	  if (wsum == 0) { kw[K_NOTIFY] = 22; wsum = 22; } }
	for (t = 0; t < S.nthreads; t++) {
		int n = 3 + (int) rt_rand_n (MAXOPS - 3), freed_own[NN];
		memset (freed_own, 0, sizeof (freed_own));
		S.nlog[t] = 0; S.next_dyn[t] = NB + 2 * t;
		for (i = 0; i < n; i++) {
			struct op *o = &S.prog[t][i];
			unsigned r = rt_rand_n (100);
			int tries = 0;
			memset (o, 0, sizeof (*o));
			(void) r;
			{ int acc = 0, kk; unsigned pickw = rt_rand_n ((unsigned) wsum); o->kind = K_FREE; for (kk = 0; kk < K_NKINDS; kk++) { acc += kw[kk]; if (pickw < (unsigned) acc) { o->kind = kk; break; } } }
			if (!S.allow_free && o->kind == K_FREE) o->kind = K_ISNOT;
			if (o->kind == K_WAIT_U && t == 0) o->kind = K_WAIT_T;   /* thread 0 performs the notify the untimed waiters depend on */
			o->dl_ns = rt_mode_b () ? (int) rt_rand_n (6000) : (int) rt_rand_n (200000);
			o->dlk = (int) rt_rand_n (5); o->keep = S.allow_free ? (int) rt_rand_n (2) : 0; o->sub = (int) rt_rand_n (3);
			/* choose a target this thread may use: unowned, or owned by it and not yet freed by it */
			do { x = (int) rt_rand_n ((unsigned) S.nbase); tries++; } while (tries < 50 && ((S.owner[x] && S.owner[x] != t + 1) || freed_own[x] || (o->kind == K_FREE && S.owner[x] != t + 1) || (o->kind == K_WAIT_U && !in_doomed_subtree (x))));
			if (tries >= 50) { o->kind = K_ISNOT; do { x = (int) rt_rand_n ((unsigned) S.nbase); tries++; } while (tries < 200 && ((S.owner[x] && S.owner[x] != t + 1) || freed_own[x])); if (tries >= 200) x = -1; }
			o->x = x;
			if (o->kind == K_FREE && x >= 0) freed_own[x] = 1;
			rt_ev ((uint32_t) (o->kind | (x + 1) << 4 | o->keep << 9 | o->dlk << 10 | o->sub << 13));
		}
		if (directed && t < 3) {
			/* the program ends with [notify] + free of the thread's own member of the chain */
			struct op *o = &S.prog[t][n - 2];
			memset (o, 0, sizeof (*o)); o->kind = K_NOTIFY; o->x = (t == 0) ? (int) rt_rand_n (2) : (rt_rand_n (2) ? t + 1 : -1);
			o = &S.prog[t][n - 1];
			memset (o, 0, sizeof (*o)); o->kind = K_FREE; o->x = t + 1;
			rt_ev ((uint32_t) (0x7000 | t << 4 | (S.prog[t][n - 2].x + 1)));
		}
		S.nops[t] = n;
		if (t == 0 && S.doomed >= 0) { struct op *o = &S.prog[0][n]; memset (o, 0, sizeof (*o)); o->kind = K_NOTIFY; o->x = S.doomed; S.nops[0] = n + 1; }
	}
	return (S.nthreads);
}

static void check (void) {
	struct ev *E[RT_MAXT * MAXLOG]; int ne = 0, t, k, x, i;
	int64_t now = rt_now_ns ();
	for (t = 0; t < S.nthreads; t++) for (k = 0; k < S.nlog[t]; k++) E[ne++] = &S.log[t][k];
	for (x = 0; x < NN; x++) {
		uint64_t first_true_ret = 0, min_notify_call = 0, min_notify_ret = 0, min_self_notify_ret = 0;
		int have_true = 0, have_call = 0, have_ret = 0, have_self = 0;
		int64_t exp_ns;
		if (S.N[x] == NULL) continue;
		for (i = 0; i < ne; i++) {
			struct ev *e = E[i];
			if (e->kind == K_NOTIFY && is_anc_or_self (e->note, x)) {
				if (!have_call || e->call < min_notify_call) { min_notify_call = e->call; have_call = 1; }
				if (!have_ret || e->ret < min_notify_ret) { min_notify_ret = e->ret; have_ret = 1; }
				if (e->note == x && (!have_self || e->ret < min_self_notify_ret)) { min_self_notify_ret = e->ret; have_self = 1; }
			}
			if (e->kind != K_NOTIFY && e->note == x && e->res) { if (!have_true || e->ret < first_true_ret) { first_true_ret = e->ret; have_true = 1; } }
		}
		/* the expiry is immutable after creation; for freed notes use the recorded minimum instead of touching the note */
		if (S.alive[x]) exp_ns = rt_ts_ns (nsync_note_expiry (S.N[x]));
		else { nsync_time m = S.own_dl[x]; int p; for (p = S.parent_of[x]; p >= 0; p = S.parent_of[p]) if (nsync_time_cmp (S.own_dl[p], m) < 0) m = S.own_dl[p]; exp_ns = rt_ts_ns (m); }
		for (i = 0; i < ne; i++) {
			struct ev *e = E[i];
			if (e->kind == K_NOTIFY || e->note != x) continue;
			if (!e->res && have_true && e->call > first_true_ret)
				rt_violation ("note-monotone", kname[e->kind], "note %d: a '%s' that started at stamp %llu reported not-notified after an observation that ended at stamp %llu had reported notified", x, kname[e->kind], (unsigned long long) e->call, (unsigned long long) first_true_ret);
			if (e->res && !((have_call && min_notify_call < e->ret) || exp_ns <= e->at_ns)) {
				/* a dynamic child may be born notified because its parent was notified; covered by have_call via ancestors */
				rt_violation ("note-unjustified", kname[e->kind], "note %d: '%s' reported notified at %lld ns although no notify had started on it or an ancestor and its expiry %lld ns had not been reached", x, kname[e->kind], (long long) e->at_ns, (long long) exp_ns);
			}
			if (!e->res && have_self && e->call > min_self_notify_ret)
				rt_violation ("note-after-notify", kname[e->kind], "note %d: '%s' reported not-notified although it started after nsync_note_notify on the same note had returned", x, kname[e->kind]);
		}
		if (S.alive[x]) {
			int q = nsync_note_is_notified (S.N[x]);
			if ((have_ret || exp_ns <= now)) { rt_cover (CV_O4_CHECKED);
				if (!q) rt_violation ("note-not-propagated", S.parent_of[x] >= 0 && !S.alive[S.parent_of[x]] ? "adopted" : "descendant", "note %d is not notified after every thread finished although %s (original parent %d %s)", x,
					have_ret ? "a notify on it or an ancestor completed" : "its expiry passed", S.parent_of[x], S.parent_of[x] >= 0 && !S.alive[S.parent_of[x]] ? "was freed: adoption" : "alive"); }
			else if (!have_call && exp_ns > rt_now_ns ()) { rt_cover (CV_O5_CHECKED);
				if (q) rt_violation ("note-spontaneous", "untriggered", "note %d is notified although no notify started on it or an ancestor and its expiry %lld ns is in the future (now %lld ns)", x, (long long) exp_ns, (long long) rt_now_ns ()); }
		}
	}
}

static void teardown (void) {
	int x;
	for (x = NN - 1; x >= 0; x--) if (S.N[x] != NULL && S.alive[x]) { nsync_note_free (S.N[x]); S.alive[x] = 0; }
}

static void describe (FILE *f) {
	int x, t, i;
	fprintf (f, "{\"notes\":[");
	for (x = 0; x < S.nbase; x++) fprintf (f, "%s\"n%d parent=%d deadline=%s owner=%d\"", x ? "," : "", x, S.parent_of[x], S.dlk[x] <= 1 ? "none" : S.dlk[x] == 2 ? "past" : S.dlk[x] == 3 ? "near" : "far", S.owner[x] - 1);
	fprintf (f, "],\"doomed\":%d,\"programs\":[", S.doomed);
	for (t = 0; t < S.nthreads; t++) {
		fprintf (f, "%s\"", t ? "," : "");
		for (i = 0; i < S.nops[t]; i++) fprintf (f, "%s%s(n%d)%s", i ? " " : "", kname[S.prog[t][i].kind], S.prog[t][i].x, S.prog[t][i].kind == K_NEWCHILD && S.prog[t][i].keep ? "+keep" : "");
		fprintf (f, "\"");
	}
	fprintf (f, "]}");
}
static void dump_state (FILE *f) {
	int x;
	fprintf (f, "{\"alive\":[");
	for (x = 0; x < NN; x++) fprintf (f, "%s%d", x ? "," : "", S.alive[x]);
	fprintf (f, "]}");
}
static void pinit (void) {
	rt_cover_name (CV_OBS_TRUE, "observations_notified"); rt_cover_name (CV_OBS_FALSE, "observations_not_notified"); rt_cover_name (CV_NOTIFIES, "notify_calls");
	rt_cover_name (CV_FREES, "frees_by_workers"); rt_cover_name (CV_CHILDREN, "children_created_by_workers"); rt_cover_name (CV_WAIT_SLEPT, "waits_that_slept");
	rt_cover_name (CV_CANCELS, "cv_waits_cancelled"); rt_cover_name (CV_FREED_WITH_CHILDREN, "frees_of_notes_with_live_children"); rt_cover_name (CV_EXPIRY_PAST_MISMATCH, "expiry_mismatch_already_past");
	rt_cover_name (CV_UNTIMED, "untimed_waits"); rt_cover_name (CV_O4_CHECKED, "propagation_checks"); rt_cover_name (CV_O5_CHECKED, "untriggered_checks"); rt_cover_name (CV_BORN_NOTIFIED, "children_born_notified"); rt_cover_name (CV_IDLE, "idle_instants_checked"); rt_cover_name (CV_DIRECTED, "directed_family_rounds");
}
rt_scenario rt_scen = { "notes", "C09", 4, &pinit, &setup, &body, &check, &teardown, &describe, NULL, &dump_state, NULL, &idle_check };
