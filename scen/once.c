/* once: C07 -- nsync_run_once runs its function exactly once and nobody returns early.

   Per round 1..3 nsync_once words taken from a 160-word array: the library maps a once to
   one of 64 lock/cv slots by (address / sizeof) mod 64, so indices i and i+64 share a slot
   and i, i+1 do not.  2..4 threads call a random one of the four variants on every once of
   the round, in random order.  The once-function counts its runs (relaxed atomic), lingers
   (scheduling points / sleep), optionally runs ANOTHER once of the round from inside (one
   that may share the lock slot), and only then sets a plain completion word.

   Oracles: immediately after every call returns: runs == 1 and completed (nobody returns
   early, nobody ran it twice); at the end runs == 1 for every once; a call on a once that is
   already done performs no semaphore wait and at most 2 atomic steps.  Deadlock rule for
   "every call returns".  */
#include "sc.h"

#define POOL 160
#define MAXONCE 3
static nsync_once pool_[POOL];
static struct {
	int n;                          /* once objects this round */
	int idx[MAXONCE];               /* index into pool_ */
	int runs[MAXONCE];
	volatile int completed[MAXONCE];
	int nest[MAXONCE];              /* once-function k also runs once nest[k] (or -1) */
	int nest_variant[MAXONCE];
	int linger[MAXONCE];
	int order[RT_MAXT][MAXONCE], variant[RT_MAXT][MAXONCE], again[RT_MAXT][MAXONCE];
	int nthreads;
} S;
enum { CV_CALLS = 0, CV_RAN, CV_LOSER_SLEPT, CV_DONE_CALLS, CV_NESTED, CV_COLLIDING_ROUNDS, CV_LOSERS };

static void call_variant (int k, int variant);
static void the_function (int k) {
	int i;
	sc_inc (&S.runs[k]);
	rt_cover (CV_RAN);
	for (i = 0; i < S.linger[k]; i++) rt_point ("once-fn");
	if (S.linger[k] > 2 && !rt_mode_b ()) rt_sleep_us (50);
	if (S.nest[k] >= 0) { rt_cover (CV_NESTED); call_variant (S.nest[k], S.nest_variant[k]); }
	for (i = 0; i < S.linger[k]; i++) rt_point ("once-fn2");
	S.completed[k] = 1;
}
static void f0 (void) { the_function (0); }
static void f1 (void) { the_function (1); }
static void f2 (void) { the_function (2); }
static void farg (void *a) { the_function ((int) (intptr_t) a); }
static void (*const fv[MAXONCE]) (void) = { &f0, &f1, &f2 };

static void call_variant (int k, int variant) {
	nsync_once *o = &pool_[S.idx[k]];
	switch (variant) {
	case 0: nsync_run_once (o, fv[k]); break;
	case 1: nsync_run_once_arg (o, &farg, (void *) (intptr_t) k); break;
	case 2: nsync_run_once_spin (o, fv[k]); break;
	default: nsync_run_once_arg_spin (o, &farg, (void *) (intptr_t) k); break;
	}
}
static const char *const vname[] = { "nsync_run_once", "nsync_run_once_arg", "nsync_run_once_spin", "nsync_run_once_arg_spin" };

static void after_return (int k, const char *api) {
	int r = sc_get (&S.runs[k]), c = S.completed[k];
	if (r != 1) rt_violation ("once-count", api, "%s returned and the function of once %d has run %d times", api, k, r);
	if (!c) rt_violation ("once-early-return", api, "%s returned before the once-function completed (runs=%d)", api, r);
}

static void body (int tid) {
	int i;
	for (i = 0; i < S.n; i++) {
		int k = S.order[tid][i], v = S.variant[tid][i], before = sc_get (&S.runs[k]);
		rt_op_begin (vname[v]);
		call_variant (k, v);
		rt_op_end ();
		rt_cover (CV_CALLS);
		if (before && rt_op_sleeps ()) { rt_cover (CV_LOSER_SLEPT); }
		if (rt_op_sleeps () || before) { rt_cover (CV_LOSERS); rt_mark_nontrivial (); }
		after_return (k, vname[v]);
		rt_ev ((uint32_t) (k << 4 | v));
		if (S.again[tid][i]) {
			int v2 = (v + 1 + S.again[tid][i]) % 4;
			rt_op_begin (vname[v2]);
			call_variant (k, v2);
			rt_op_end ();
			rt_cover (CV_DONE_CALLS);
			if (rt_op_sleeps () != 0) rt_violation ("once-done-blocked", vname[v2], "%s on a once that is already done slept %u time(s)", vname[v2], rt_op_sleeps ());
			if (rt_op_steps () > 2) rt_violation ("once-done-blocked", vname[v2], "%s on a once that is already done took %u atomic steps", vname[v2], rt_op_steps ());
			after_return (k, vname[v2]);
		}
		rt_point ("between-once");
	}
}

static int setup (uint64_t seed) {
	int i, t, base = (int) rt_rand_n (POOL - 64 - 4), collide = (int) rt_rand_n (2);
	(void) seed;
	S.n = 1 + (int) rt_rand_n (MAXONCE);
	S.nthreads = 2 + (int) rt_rand_n (3);
	for (i = 0; i < S.n; i++) {
		S.idx[i] = collide ? base + 64 * (i % 2) + 128 * 0 + (i / 2) * 1 : base + i;
		if (collide && i == 2) S.idx[i] = base + 1;
		memset ((void *) &pool_[S.idx[i]], 0, sizeof (pool_[0]));
		S.runs[i] = 0; S.completed[i] = 0; S.nest[i] = -1; S.linger[i] = (int) rt_rand_n (5); if (rt_mode_b () && rt_rand_n (6) == 0) S.linger[i] = 150 + (int) rt_rand_n (700);   /* a once-function that outlasts many back-off waits of its waiters */
	}
	if (collide && S.n >= 2) rt_cover (CV_COLLIDING_ROUNDS);
	/* nesting only towards higher indices: no cycles */
	for (i = 0; i + 1 < S.n; i++) if (rt_rand_n (3) == 0) { S.nest[i] = i + 1 + (int) rt_rand_n ((unsigned) (S.n - i - 1)); S.nest_variant[i] = (int) rt_rand_n (4); }
	for (t = 0; t < S.nthreads; t++) {
		for (i = 0; i < S.n; i++) S.order[t][i] = i;
		for (i = S.n - 1; i > 0; i--) { int j = (int) rt_rand_n ((unsigned) i + 1), x = S.order[t][i]; S.order[t][i] = S.order[t][j]; S.order[t][j] = x; }
		for (i = 0; i < S.n; i++) { S.variant[t][i] = (int) rt_rand_n (4); S.again[t][i] = (int) rt_rand_n (3); rt_ev ((uint32_t) (S.order[t][i] | S.variant[t][i] << 2 | S.again[t][i] << 4)); }
	}
	rt_ev ((uint32_t) (collide | S.n << 1));
	return (S.nthreads);
}
static void check (void) {
	int i;
	for (i = 0; i < S.n; i++) if (sc_get (&S.runs[i]) != 1 || !S.completed[i]) rt_violation ("once-count", "end-of-round", "at the end of the round the function of once %d has run %d times (completed=%d)", i, S.runs[i], S.completed[i]);
}
static void describe (FILE *f) {
	int t, i;
	fprintf (f, "{\"once_pool_indices\":[");
	for (i = 0; i < S.n; i++) fprintf (f, "%s%d", i ? "," : "", S.idx[i]);
	fprintf (f, "],\"nested\":[");
	for (i = 0; i < S.n; i++) fprintf (f, "%s%d", i ? "," : "", S.nest[i]);
	fprintf (f, "],\"threads\":[");
	for (t = 0; t < S.nthreads; t++) { fprintf (f, "%s\"", t ? "," : ""); for (i = 0; i < S.n; i++) fprintf (f, "%s%s(once%d)%s", i ? " " : "", vname[S.variant[t][i]] + 6, S.order[t][i], S.again[t][i] ? "+again" : ""); fprintf (f, "\""); }
	fprintf (f, "]}");
}
static void pinit (void) {
	rt_cover_name (CV_CALLS, "calls"); rt_cover_name (CV_RAN, "function_runs"); rt_cover_name (CV_LOSER_SLEPT, "losers_that_slept"); rt_cover_name (CV_DONE_CALLS, "calls_on_done_once");
	rt_cover_name (CV_NESTED, "nested_once_runs"); rt_cover_name (CV_COLLIDING_ROUNDS, "rounds_with_shared_lock_slot"); rt_cover_name (CV_LOSERS, "calls_that_lost_or_slept");
}
rt_scenario rt_scen = { "once", "C07", 4, &pinit, &setup, &body, &check, NULL, &describe, NULL, NULL, NULL };
