/* refcount: C13 (mutex clause) -- a release of an nsync_mu makes no access to the mutex
   after the point at which another thread can acquire it, so a thread that learns under the
   lock that it is the last user may free the memory holding the mutex as soon as its own
   unlock returns.

   A heap object { nsync_mu mu; nsync_cv cv; int refs; int v; } is shared by 2..4 threads, each
   holding one reference.  Every thread runs a few operations on it (write / read sections,
   try-locks, timed cv waits and timed conditional waits on the object's own mutex -- so that
   queued lockers, cv waiters, conditional waiters and timeouts are present), then drops its
   reference UNDER THE WRITE LOCK:  lock; done[me] = 1; last = (everybody done); unlock; if (last) free (obj).
   Some threads instead leave through a final READ section in which they only mark themselves done: a
   writer queued behind such a section may free the object while the reader is still inside nsync_mu_runlock.
   (Dropping a reference in a read section would be a client bug: a reader cannot know that it
   is the last user.)  After dropping its reference a thread never touches the object.

   Oracle: AddressSanitizer (freed memory is quarantined, never reused within an execution):
   any access by a still-running nsync_mu_unlock / nsync_mu_runlock / wake-up path to the freed
   object is a heap-use-after-free.  Plus the deadlock rule.  */
#include "sc.h"

struct obj { nsync_mu mu; nsync_cv cv; int refs; int v; int done[RT_MAXT]; long pad[4]; };
#define MAXOPS 6
#define MAXOPS2 14
static struct {
	struct obj *o;
	int nthreads, nops[RT_MAXT], ops[RT_MAXT][MAXOPS2], dl[RT_MAXT][MAXOPS2];
	int freed_by;
	int kind;                    /* 0 = random programs; 1 = directed: signal in a read section with a reader cv waiter and an nsync_wait_n waiter queued;
	                                2 = lock traffic only: longer programs of lock / trylock / rlock / rtrylock sections (hand-offs, designated wakers,
	                                    bargers, late lockers), and half of the threads drop their reference as try-lock pollers (never queued) */
	int unref_by_trylock[RT_MAXT];
	int in_release[RT_MAXT];     /* the thread is inside nsync_mu_unlock / nsync_mu_runlock on the object */
	int released[RT_MAXT];       /* ... and its CAS that gives the lock up has succeeded, but the call has not returned yet */
	int freeze_budget;
	int k1_waitn_reader, k1_bcast, k1_go;
	int final_reader[RT_MAXT];   /* this thread ends with a READ section in which it only marks itself done */
} S;
enum { CV_FREES = 0, CV_UNREF_SLEPT, CV_OPS, CV_WAIT_SLEPT, CV_LAST_WITH_QUEUE, CV_FREED_BY_MAIN, CV_DIRECTED_FREES, CV_UNREF_TRY, CV_KIND2, CV_FROZEN };
enum { O_W, O_R, O_TRY, O_RTRY, O_CVWAIT, O_MUWAIT, O_SIGNAL, O_CVWAIT_R, O_MUWAIT_R, O_BCAST, O_WAITN, O_WAITN_R, O_SIGNAL_IN_R, O_NOPS };
static void lk (void *m) { nsync_mu_lock ((nsync_mu *) m); }
static void ulk (void *m) { nsync_mu_unlock ((nsync_mu *) m); }
static void rlk (void *m) { nsync_mu_rlock ((nsync_mu *) m); }
static void rulk (void *m) { nsync_mu_runlock ((nsync_mu *) m); }
static int cond_v (const void *p) { return (*(const int *) p > 1000000); }   /* never true */

/* The adversarial schedule for the mutex clause (Mode B): a thread whose release has given the lock up (its CAS removed its hold
   from the word) but whose nsync_mu_unlock / nsync_mu_runlock call has not returned yet is FROZEN while anybody else can run (for
   up to 48 scheduling decisions): the others get the chance to acquire, find they are the last user, release and free the object
   before the releasing thread takes its next step.  The verdict is still AddressSanitizer's.  */
static void word_cb (int idx, int op, uint32_t old_v, uint32_t new_v, int ok) {
	int self = rt_self ();
	(void) idx;
	if (!ok || self < 0 || op > 4 || !S.in_release[self]) return;
	if (((old_v & SC_MU_WLOCK) && !(new_v & SC_MU_WLOCK)) || (new_v & SC_MU_RLOCK_FIELD) < (old_v & SC_MU_RLOCK_FIELD)) { S.released[self] = 1; S.freeze_budget = 48; rt_cover (CV_FROZEN); }
}
static int adversary (int self, int forced, const int *run, int n) {
	int i, frozen = 0, first = -1;
	for (i = 0; i < n; i++) { if (S.released[run[i]]) frozen++; else if (first < 0 || run[i] == self) first = (run[i] == self && forced) ? first : run[i]; }
	if (frozen == 0 || first < 0 || S.freeze_budget <= 0) return (-1);
	S.freeze_budget--;
	for (i = 0; i < n; i++) if (run[i] == self && !forced && !S.released[self]) return (self);    /* long runs: lock, unref, unlock, free inside the window */
	return (first);
}
#define REL_BEGIN(tid) (S.in_release[tid] = 1)
#define REL_END(tid) (S.released[tid] = 0, S.in_release[tid] = 0)

/* directed round: T0 reader in nsync_cv_wait, T1 in nsync_wait_n on the same cv, T2 signals from inside a read section,
   T3 takes the mutex only by try-lock and frees the object as soon as it finds everybody done */
static void body_directed (int tid) {
	struct obj *o = S.o;
	int i, last, spins = 0;
	switch (tid) {
	case 0:
		nsync_mu_rlock (&o->mu);
		RT_OP ("nsync_cv_wait", nsync_cv_wait (&o->cv, &o->mu));
		o->done[0] = 1;
		rt_point ("t0-done");
		RT_OP ("nsync_mu_runlock", nsync_mu_runlock (&o->mu));
		break;
	case 1: { struct nsync_waitable_s w; struct nsync_waitable_s *pw = &w; int rd = S.k1_waitn_reader;
		w.v = &o->cv; w.funcs = &nsync_cv_waitable_funcs;
		while (!rt_thread_in_wait (0)) { rt_yield (); if (!rt_mode_b () && (++spins & 7) == 0) rt_sleep_us (10); if (spins > 50000000) rt_fatal ("t0 never slept"); }
		if (rd) nsync_mu_rlock (&o->mu); else nsync_mu_lock (&o->mu);
		RT_OP ("nsync_wait_n", nsync_wait_n (&o->mu, rd ? &rlk : &lk, rd ? &rulk : &ulk, nsync_time_no_deadline, 1, &pw));
		o->done[1] = 1;
		if (rd) RT_OP ("nsync_mu_runlock", nsync_mu_runlock (&o->mu)); else RT_OP ("nsync_mu_unlock", nsync_mu_unlock (&o->mu));
		break; }
	case 2:
		/* both waiters must be asleep ON THE CV (not merely blocked on the mutex): judged by the nsync function of their last step */
		while (!(rt_thread_in_wait (0) && !strcmp (rt_thread_at (0), "nsync_cv_wait_with_deadline_generic") && rt_thread_in_wait (1) && !strcmp (rt_thread_at (1), "cv_ready_time"))) { rt_yield (); if (!rt_mode_b () && (++spins & 7) == 0) rt_sleep_us (10); if (spins > 50000000) rt_fatal ("waiters never slept"); }
		nsync_mu_rlock (&o->mu);
		if (S.k1_bcast) RT_OP ("nsync_cv_broadcast", nsync_cv_broadcast (&o->cv)); else { RT_OP ("nsync_cv_signal", nsync_cv_signal (&o->cv)); RT_OP ("nsync_cv_signal", nsync_cv_signal (&o->cv)); }
		o->done[2] = 1;
		__atomic_store_n (&S.k1_go, 1, __ATOMIC_RELEASE);
		rt_point ("t2-done");
		RT_OP ("nsync_mu_runlock", nsync_mu_runlock (&o->mu));
		break;
	default:
		while (!__atomic_load_n (&S.k1_go, __ATOMIC_ACQUIRE)) { rt_yield (); if (!rt_mode_b () && (++spins & 7) == 0) rt_sleep_us (10); if (spins > 50000000) rt_fatal ("t2 never signalled"); }
		for (;;) {
			int r; RT_OP ("nsync_mu_trylock", r = nsync_mu_trylock (&o->mu));
			if (r) {
				last = 1; for (i = 0; i < 3; i++) if (!o->done[i]) last = 0;
				if (last) { o->done[3] = 1; RT_OP ("nsync_mu_unlock", nsync_mu_unlock (&o->mu)); rt_cover (CV_FREES); rt_cover (CV_DIRECTED_FREES); S.freed_by = 3; free (o); rt_mark_nontrivial (); return; }
				RT_OP ("nsync_mu_unlock", nsync_mu_unlock (&o->mu));
			}
			rt_yield (); if (!rt_mode_b () && (++spins & 7) == 0) rt_sleep_us (5);
			if (spins > 50000000) rt_fatal ("directed round did not finish");
		}
	}
}

static void body (int tid) {
	struct obj *o = S.o;
	int i, last;
	if (S.kind == 1) { body_directed (tid); return; }
	for (i = 0; i < S.nops[tid]; i++) {
		rt_cover (CV_OPS);
		switch (S.ops[tid][i]) {
		case O_W: nsync_mu_lock (&o->mu); o->v++; rt_point ("w"); REL_BEGIN (tid); nsync_mu_unlock (&o->mu); REL_END (tid); break;
		case O_R: nsync_mu_rlock (&o->mu); (void) o->v; rt_point ("r"); REL_BEGIN (tid); nsync_mu_runlock (&o->mu); REL_END (tid); break;
		case O_TRY: if (nsync_mu_trylock (&o->mu)) { o->v++; REL_BEGIN (tid); nsync_mu_unlock (&o->mu); REL_END (tid); } break;
		case O_RTRY: if (nsync_mu_rtrylock (&o->mu)) { REL_BEGIN (tid); nsync_mu_runlock (&o->mu); REL_END (tid); } break;
		case O_CVWAIT: nsync_mu_lock (&o->mu); RT_OP ("nsync_cv_wait_with_deadline", nsync_cv_wait_with_deadline (&o->cv, &o->mu, rt_deadline_in (S.dl[tid][i]), NULL)); if (rt_op_sleeps ()) rt_cover (CV_WAIT_SLEPT); nsync_mu_unlock (&o->mu); break;
		case O_CVWAIT_R: nsync_mu_rlock (&o->mu); RT_OP ("nsync_cv_wait_with_deadline", nsync_cv_wait_with_deadline (&o->cv, &o->mu, rt_deadline_in (S.dl[tid][i]), NULL)); nsync_mu_runlock (&o->mu); break;
		case O_MUWAIT: nsync_mu_lock (&o->mu); RT_OP ("nsync_mu_wait_with_deadline", nsync_mu_wait_with_deadline (&o->mu, &cond_v, &o->v, NULL, rt_deadline_in (S.dl[tid][i]), NULL)); if (rt_op_sleeps ()) rt_cover (CV_WAIT_SLEPT); nsync_mu_unlock (&o->mu); break;
		case O_MUWAIT_R: nsync_mu_rlock (&o->mu); RT_OP ("nsync_mu_wait_with_deadline", nsync_mu_wait_with_deadline (&o->mu, &cond_v, &o->v, NULL, rt_deadline_in (S.dl[tid][i]), NULL)); nsync_mu_runlock (&o->mu); break;
		case O_BCAST: RT_OP ("nsync_cv_broadcast", nsync_cv_broadcast (&o->cv)); break;
		case O_SIGNAL_IN_R: nsync_mu_rlock (&o->mu); if (rt_rand_n (2)) RT_OP ("nsync_cv_signal", nsync_cv_signal (&o->cv)); else RT_OP ("nsync_cv_broadcast", nsync_cv_broadcast (&o->cv)); rt_point ("r-after-signal"); nsync_mu_runlock (&o->mu); break;
		case O_WAITN: case O_WAITN_R: { struct nsync_waitable_s w; struct nsync_waitable_s *pw = &w; int rd = (S.ops[tid][i] == O_WAITN_R);
			w.v = &o->cv; w.funcs = &nsync_cv_waitable_funcs;
			if (rd) nsync_mu_rlock (&o->mu); else nsync_mu_lock (&o->mu);
			RT_OP ("nsync_wait_n", nsync_wait_n (&o->mu, rd ? &rlk : &lk, rd ? &rulk : &ulk, rt_deadline_in (S.dl[tid][i]), 1, &pw));
			if (rd) nsync_mu_runlock (&o->mu); else nsync_mu_unlock (&o->mu);
			break; }
		default: RT_OP ("nsync_cv_signal", nsync_cv_signal (&o->cv)); break;
		}
		rt_point ("between-ops");
	}
	if (S.final_reader[tid]) {
		/* leave through a read section: mark this thread done (its own slot) and never touch the object again.
		   A writer queued behind this section may find everybody done and free the object while this thread
		   is still inside nsync_mu_runlock. */
		RT_OP ("nsync_mu_rlock", nsync_mu_rlock (&o->mu));
		o->done[tid] = 1;
		rt_point ("final-read-section");
		REL_BEGIN (tid);
		RT_OP ("nsync_mu_runlock", nsync_mu_runlock (&o->mu));
		REL_END (tid);
		rt_ev ((uint32_t) (0x40 | tid));
		return;
	}
	/* drop the reference under the write lock */
	if (S.unref_by_trylock[tid]) {
		int spins = 0, r = 0;
		while (!r) { RT_OP ("nsync_mu_trylock", r = nsync_mu_trylock (&o->mu)); if (!r) { rt_yield (); if (!rt_mode_b () && (++spins & 7) == 0) rt_sleep_us (5); if (spins > 50000000) rt_fatal ("try-lock unref did not finish"); } }
		rt_cover (CV_UNREF_TRY);
	} else {
		RT_OP ("nsync_mu_lock", nsync_mu_lock (&o->mu));
		if (rt_op_sleeps ()) { rt_cover (CV_UNREF_SLEPT); rt_mark_nontrivial (); }
	}
	o->done[tid] = 1;
	last = 1;
	for (i = 0; i < S.nthreads; i++) if (!o->done[i]) last = 0;
	if (last && (sc_word (&o->mu.word) & 4u)) rt_cover (CV_LAST_WITH_QUEUE);
	REL_BEGIN (tid);
	RT_OP ("nsync_mu_unlock", nsync_mu_unlock (&o->mu));
	REL_END (tid);
	if (last) { rt_cover (CV_FREES); S.freed_by = tid; free (o); }
	rt_ev ((uint32_t) (last << 4 | tid));
}

static int setup (uint64_t seed) {
	int t, i;
	(void) seed;
	S.o = (struct obj *) malloc (sizeof (*S.o));
	memset (S.o, 0, sizeof (*S.o));
	nsync_mu_init (&S.o->mu); nsync_cv_init (&S.o->cv);
	S.nthreads = 2 + (int) rt_rand_n (3);
	S.k1_go = 0; { unsigned kk = rt_rand_n (4); S.kind = kk == 0 ? 1 : kk == 1 ? 2 : 0; } S.k1_waitn_reader = (int) rt_rand_n (2); S.k1_bcast = (int) rt_rand_n (2);
	if (S.kind == 1) S.nthreads = 4;
	if (S.kind == 2) { S.nthreads = 3 + (int) rt_rand_n (2); rt_cover (CV_KIND2); }
	S.o->refs = S.nthreads; S.freed_by = -1;
	memset (S.in_release, 0, sizeof (S.in_release)); memset (S.released, 0, sizeof (S.released)); S.freeze_budget = 0;
	rt_watch_word (0, &S.o->mu.word, &word_cb);
	for (t = 0; t < RT_MAXT; t++) S.final_reader[t] = 0;
	for (t = 1; t < S.nthreads; t++) S.final_reader[t] = (rt_rand_n (3) == 0);     /* thread 0 always ends as a writer */
	for (t = 0; t < RT_MAXT; t++) S.unref_by_trylock[t] = 0;
	for (t = 0; t < S.nthreads; t++) {
		S.nops[t] = (int) rt_rand_n (MAXOPS + 1);
		if (S.kind == 2) { S.nops[t] = 2 + (int) rt_rand_n (MAXOPS2 - 1); S.unref_by_trylock[t] = (int) rt_rand_n (2); S.final_reader[t] = 0; }
		for (i = 0; i < S.nops[t]; i++) { S.ops[t][i] = (int) rt_rand_n (O_NOPS); if (S.kind == 2) { static const int lk_ops[6] = { O_W, O_W, O_W, O_TRY, O_R, O_RTRY }; S.ops[t][i] = lk_ops[rt_rand_n (6)]; } S.dl[t][i] = rt_mode_b () ? (int) rt_rand_n (3000) : (int) rt_rand_n (100000); rt_ev ((uint32_t) S.ops[t][i]); }
	}
	return (S.nthreads);
}
static void check (void) { rt_watch_word (0, NULL, NULL); if (S.freed_by < 0) { rt_cover (CV_FREED_BY_MAIN); free (S.o); } }
static void describe (FILE *f) {
	static const char *const on[] = { "W", "R", "try", "rtry", "cvwait", "muwait", "signal", "cvwait(r)", "muwait(r)", "bcast", "waitn", "waitn(r)", "signal-in-rsec" }; int t, i;
	if (S.kind == 1) { fprintf (f, "{\"directed\":\"T0 reader cv_wait, T1 wait_n(%s), T2 %s inside a read section, T3 try-lock + free\",\"freed_by\":%d}", S.k1_waitn_reader ? "reader" : "writer", S.k1_bcast ? "broadcast" : "2 signals", S.freed_by); return; }
	fprintf (f, "{\"threads\":[");
	for (t = 0; t < S.nthreads; t++) { fprintf (f, "%s\"", t ? "," : ""); for (i = 0; i < S.nops[t]; i++) fprintf (f, "%s ", on[S.ops[t][i]]); fprintf (f, "unref\""); }
	fprintf (f, "],\"freed_by\":%d}", S.freed_by);
}
static void pinit (void) { rt_cover_name (CV_UNREF_TRY, "references_dropped_by_trylock_pollers"); rt_cover_name (CV_KIND2, "lock_traffic_only_rounds"); rt_cover_name (CV_FROZEN, "releases_frozen_after_giving_the_lock_up"); rt_cover_name (CV_FREES, "objects_freed_by_last_user"); rt_cover_name (CV_UNREF_SLEPT, "final_acquisitions_that_slept"); rt_cover_name (CV_OPS, "operations"); rt_cover_name (CV_WAIT_SLEPT, "waits_that_slept"); rt_cover_name (CV_LAST_WITH_QUEUE, "last_unref_with_waiting_bit_set"); rt_cover_name (CV_FREED_BY_MAIN, "rounds_where_the_last_to_finish_was_a_reader"); rt_cover_name (CV_DIRECTED_FREES, "directed_rounds_freed_by_trylocker"); }
rt_scenario rt_scen = { "refcount", "C13", 4, &pinit, &setup, &body, &check, NULL, &describe, NULL, NULL, &adversary, NULL };
