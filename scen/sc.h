/* Helpers shared by the scenario files.  C / C++ common subset. */
#ifndef NSYNC_VERIF_SCEN_SC_H_
#define NSYNC_VERIF_SCEN_SC_H_
#include <stdint.h>
#include <stdio.h>
#include <stdlib.h>
#include <string.h>
#include <errno.h>
#include "nsync.h"
#include "nsync_debug.h"
#include "rt.h"
NSYNC_CPP_USING_

/* bits of the mutex word that are part of the documented invariant "at least one of
   MU_WLOCK and the reader count is zero" (internal/common.h) */
#define SC_MU_WLOCK 1u
#define SC_MU_RLOCK_FIELD (~(uint32_t) 0xff)
#define SC_MU_ANY_LOCK (SC_MU_WLOCK | SC_MU_RLOCK_FIELD)

static inline uint32_t sc_word (const volatile void *p) { return (__atomic_load_n ((const volatile uint32_t *) p, __ATOMIC_RELAXED)); }

/* relaxed shadow counters */
static inline int sc_inc (int *p) { return (__atomic_fetch_add (p, 1, __ATOMIC_RELAXED)); }
static inline int sc_dec (int *p) { return (__atomic_fetch_sub (p, 1, __ATOMIC_RELAXED)); }
static inline int sc_get (const int *p) { return (__atomic_load_n (p, __ATOMIC_RELAXED)); }
static inline void sc_set (int *p, int v) { __atomic_store_n (p, v, __ATOMIC_RELAXED); }

static inline int sc_time_is_no_deadline (nsync_time t) { return (nsync_time_cmp (t, nsync_time_no_deadline) == 0); }

/* small string builder for describe() */
struct sc_buf { char *p; size_t n, cap; };
static inline void sc_bprintf (struct sc_buf *b, const char *fmt, ...) __attribute__ ((format (printf, 2, 3)));
#include <stdarg.h>
static inline void sc_bprintf (struct sc_buf *b, const char *fmt, ...) {
	va_list ap;
	if (b->n + 200 > b->cap) { b->cap = b->cap ? b->cap * 2 : 1024; b->p = (char *) realloc (b->p, b->cap); }
	va_start (ap, fmt);
	b->n += (size_t) vsnprintf (b->p + b->n, b->cap - b->n, fmt, ap);
	va_end (ap);
}
#endif
