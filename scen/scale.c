/* scale: the "wakes everybody" clauses with MANY waiters (20..44 threads), beyond the 2..4 the small scenarios use --
   a fixed limit (a batch size, a budget, a small array) is a realistic kind of change, and no small scenario can see it.
   --param kind=K selects the clause (default: by round):
     0 cv-broadcast  N waiters (nsync_cv_wait, reader or writer mode, every fourth through nsync_wait_n) on one cv; the
                     controller, once all are registered (quiescence), broadcasts (inside or after a critical section):
                     all N must return (C04)
     1 cv-signals    same waiters, K <= N signals, one per critical section: at least K waiters must return; then a
                     broadcast releases the rest (C04)
     2 counter       N waiters (nsync_counter_wait, every third through nsync_wait_n) on a counter of value V: V
                     decrements from several threads' worth of calls; at zero all N must return (C10)
     3 note-tree     a root note with N children (every fifth child has a grandchild); one waiter per leaf
                     (nsync_note_wait, some through cancellable cv waits): notify(root) must release all (C08)
     4 wide wait_n   one thread calls nsync_wait_n on M = 6..24 objects (never-ready notes and counters, plus ONE that the
                     controller makes ready, at a random index): it must return that index (C11)
   Oracle: after the controller's action and quiescence, every thread that the clause says is released has finished
   (scale-asleep); results are checked as in the small scenarios.  */
#include "sc.h"

#define MAXW 44
#define MAXM 24
static struct {
	int kind, N, K, V, M, ready_idx;
	nsync_mu mu; nsync_cv cv; nsync_counter ctr;
	nsync_note root, child[MAXW + 1], grand[MAXW + 1];
	nsync_note dull[MAXM]; nsync_counter dullc[MAXM];
	int reader[MAXW + 1], via[MAXW + 1], inside;
	int flag;                      /* protected by mu: set by the controller before it wakes */
	int returned[MAXW + 1], result[MAXW + 1];
} S;
enum { CV_ROUNDS = 0, CV_WAITERS, CV_RELEASED, CV_WIDE_OBJECTS };

static void waiter (int t) {
	switch (S.kind) {
	case 0: case 1:
		if (S.reader[t]) nsync_mu_rlock (&S.mu); else nsync_mu_lock (&S.mu);
		while (!S.flag) {
			if (S.via[t]) { struct nsync_waitable_s w; struct nsync_waitable_s *pw = &w; w.v = &S.cv; w.funcs = &nsync_cv_waitable_funcs;
				RT_OP ("nsync_wait_n", nsync_wait_n (&S.mu, S.reader[t] ? (void (*) (void *)) &nsync_mu_rlock : (void (*) (void *)) &nsync_mu_lock,
								     S.reader[t] ? (void (*) (void *)) &nsync_mu_runlock : (void (*) (void *)) &nsync_mu_unlock, nsync_time_no_deadline, 1, &pw)); }
			else RT_OP ("nsync_cv_wait", nsync_cv_wait (&S.cv, &S.mu));
			if (S.kind == 1) break;     /* one wake-up is enough: the flag is only set by the final broadcast */
		}
		if (S.reader[t]) nsync_mu_runlock (&S.mu); else nsync_mu_unlock (&S.mu);
		break;
	case 2:
		if (S.via[t]) { struct nsync_waitable_s w; struct nsync_waitable_s *pw = &w; int r; w.v = S.ctr; w.funcs = &nsync_counter_waitable_funcs;
			RT_OP ("nsync_wait_n", r = nsync_wait_n (NULL, NULL, NULL, nsync_time_no_deadline, 1, &pw)); S.result[t] = r; }
		else { uint32_t r; RT_OP ("nsync_counter_wait", r = nsync_counter_wait (S.ctr, nsync_time_no_deadline)); S.result[t] = (int) r; }
		if (S.result[t] != 0) rt_violation ("scale-result", "counter", "a wait without deadline on the counter returned %d", S.result[t]);
		break;
	case 3: {
		nsync_note n = S.grand[t] ? S.grand[t] : S.child[t];
		if (S.via[t]) { nsync_mu m; nsync_cv c; int r; nsync_mu_init (&m); nsync_cv_init (&c); nsync_mu_lock (&m);
			RT_OP ("nsync_cv_wait_with_deadline", r = nsync_cv_wait_with_deadline (&c, &m, nsync_time_no_deadline, n)); nsync_mu_unlock (&m);
			if (r != ECANCELED) rt_violation ("scale-result", "note", "a cv wait that only its cancel note can end returned %d", r); }
		else { int r; RT_OP ("nsync_note_wait", r = nsync_note_wait (n, nsync_time_no_deadline)); if (!r) rt_violation ("scale-result", "note", "nsync_note_wait without deadline returned 0"); }
		break; }
	default: {
		struct nsync_waitable_s w[MAXM]; struct nsync_waitable_s *pw[MAXM]; int i, r;
		if (t != 1) break;
		for (i = 0; i < S.M; i++) {
			if (i == S.ready_idx) { w[i].v = S.root; w[i].funcs = &nsync_note_waitable_funcs; }
			else if (i & 1) { w[i].v = S.dullc[i]; w[i].funcs = &nsync_counter_waitable_funcs; }
			else { w[i].v = S.dull[i]; w[i].funcs = &nsync_note_waitable_funcs; }
			pw[i] = &w[i];
		}
		rt_cover_add (CV_WIDE_OBJECTS, S.M);
		RT_OP ("nsync_wait_n", r = nsync_wait_n (NULL, NULL, NULL, nsync_time_no_deadline, S.M, pw));
		if (r != S.ready_idx) rt_violation ("scale-result", "wait_n", "nsync_wait_n on %d objects returned %d; only object %d was made ready", S.M, r, S.ready_idx);
		break; }
	}
	if (rt_op_sleeps ()) rt_mark_nontrivial ();
	sc_set (&S.returned[t], 1);
}

static int count_returned (void) { int t, n = 0; for (t = 1; t <= S.N; t++) if (sc_get (&S.returned[t])) n++; return (n); }
static void must_all (const char *what) {
	int t;
	rt_wait_quiescent ();
	for (t = 1; t <= S.N; t++) if (!sc_get (&S.returned[t]) && (S.kind != 4 || t == 1))
		rt_violation ("scale-asleep", what, "%s with %d waiters: thread %d has not returned although nothing else can run (%d of %d returned)", what, S.N, t, count_returned (), S.N);
	rt_cover_add (CV_RELEASED, S.kind == 4 ? 1 : S.N);
}

static void controller (void) {
	int i;
	rt_wait_quiescent ();          /* everybody registered */
	rt_cover (CV_ROUNDS);
	switch (S.kind) {
	case 0:
		nsync_mu_lock (&S.mu); S.flag = 1;
		if (S.inside) { RT_OP ("nsync_cv_broadcast", nsync_cv_broadcast (&S.cv)); nsync_mu_unlock (&S.mu); }
		else { nsync_mu_unlock (&S.mu); RT_OP ("nsync_cv_broadcast", nsync_cv_broadcast (&S.cv)); }
		must_all ("nsync_cv_broadcast");
		break;
	case 1:
		for (i = 0; i < S.K; i++) {
			nsync_mu_lock (&S.mu);
			if (S.inside) { RT_OP ("nsync_cv_signal", nsync_cv_signal (&S.cv)); nsync_mu_unlock (&S.mu); }
			else { nsync_mu_unlock (&S.mu); RT_OP ("nsync_cv_signal", nsync_cv_signal (&S.cv)); }
			if (rt_rand_n (3) == 0) rt_wait_quiescent ();
		}
		rt_wait_quiescent ();
		if (count_returned () < S.K) rt_violation ("scale-asleep", "nsync_cv_signal", "%d signals, each issued with %d or more waiters registered, released only %d waiters", S.K, S.N - S.K + 1, count_returned ());
		nsync_mu_lock (&S.mu); S.flag = 1; RT_OP ("nsync_cv_broadcast", nsync_cv_broadcast (&S.cv)); nsync_mu_unlock (&S.mu);
		must_all ("nsync_cv_signal x K then nsync_cv_broadcast");
		break;
	case 2:
		for (i = 0; i < S.V; i++) { uint32_t r; RT_OP ("nsync_counter_add", r = nsync_counter_add (S.ctr, -1)); if ((int) r != S.V - 1 - i) rt_violation ("scale-result", "counter", "decrement %d of %d returned %u", i + 1, S.V, r); }
		must_all ("the counter reaching zero");
		break;
	case 3:
		RT_OP ("nsync_note_notify", nsync_note_notify (S.root));
		must_all ("nsync_note_notify (root)");
		break;
	default:
		RT_OP ("nsync_note_notify", nsync_note_notify (S.root));
		must_all ("nsync_wait_n on many objects");
		break;
	}
}
static void body (int tid) { if (tid == 0) controller (); else waiter (tid); }

static int setup (uint64_t seed) {
	int t, i, k = (int) rt_param ("kind", -1);
	(void) seed;
	S.kind = k >= 0 ? k : (int) (rt_round () % 5);
	S.N = 20 + (int) rt_rand_n (MAXW - 20 + 1);
	if (S.kind == 4) S.N = 1;
	S.K = 1 + (int) rt_rand_n ((unsigned) S.N);
	S.V = 1 + (int) rt_rand_n (40);
	S.M = 6 + (int) rt_rand_n (MAXM - 6 + 1);
	S.ready_idx = (int) rt_rand_n ((unsigned) S.M);
	S.inside = (int) rt_rand_n (2);
	S.flag = 0;
	nsync_mu_init (&S.mu); nsync_cv_init (&S.cv);
	S.ctr = nsync_counter_new ((uint32_t) S.V);
	S.root = nsync_note_new (NULL, nsync_time_no_deadline);
	for (t = 0; t <= MAXW; t++) { S.child[t] = NULL; S.grand[t] = NULL; S.returned[t] = 0; S.result[t] = -1; }
	for (t = 1; t <= S.N; t++) {
		S.reader[t] = rt_rand_n (3) == 0;
		S.via[t] = (S.kind == 2) ? (t % 3 == 0) : (S.kind == 3) ? (t % 4 == 0) : (t % 4 == 0);
		if (S.kind == 3) { S.child[t] = nsync_note_new (S.root, nsync_time_no_deadline); if (t % 5 == 0) S.grand[t] = nsync_note_new (S.child[t], nsync_time_no_deadline); }
	}
	for (i = 0; i < MAXM; i++) { S.dull[i] = NULL; S.dullc[i] = NULL; }
	if (S.kind == 4) for (i = 0; i < S.M; i++) { if (i & 1) S.dullc[i] = nsync_counter_new (3); else S.dull[i] = nsync_note_new (NULL, nsync_time_no_deadline); }
	rt_cover_add (CV_WAITERS, S.N);
	rt_ev ((uint32_t) (S.kind | S.N << 3 | S.K << 10 | S.inside << 17));
	rt_ev ((uint32_t) (S.M | S.ready_idx << 6 | S.V << 12));
	return (S.N + 1);
}
static void check (void) { if ((sc_word (&S.mu.word) & (SC_MU_ANY_LOCK | 2u)) != 0) rt_violation ("final-word", "held", "after every thread finished the mutex word is %#x", sc_word (&S.mu.word)); }
static void teardown (void) {
	int t, i;
	for (t = 1; t <= MAXW; t++) { if (S.grand[t]) nsync_note_free (S.grand[t]); if (S.child[t]) nsync_note_free (S.child[t]); }
	for (i = 0; i < MAXM; i++) { if (S.dull[i]) nsync_note_free (S.dull[i]); if (S.dullc[i]) nsync_counter_free (S.dullc[i]); }
	nsync_note_free (S.root); nsync_counter_free (S.ctr);
}
static void describe (FILE *f) { static const char *const kn[] = { "cv-broadcast", "cv-signals", "counter", "note-tree", "wide wait_n" };
	fprintf (f, "{\"kind\":\"%s\",\"waiters\":%d,\"signals\":%d,\"counter_value\":%d,\"wait_n_objects\":%d,\"ready_index\":%d,\"wake_inside_critical_section\":%d}", kn[S.kind], S.N, S.K, S.V, S.M, S.ready_idx, S.inside); }
static void pinit (void) { rt_cover_name (CV_ROUNDS, "rounds_in_which_every_waiter_was_registered_first"); rt_cover_name (CV_WAITERS, "waiters_total"); rt_cover_name (CV_RELEASED, "waiters_checked_released"); rt_cover_name (CV_WIDE_OBJECTS, "wait_n_objects_total"); }
rt_scenario rt_scen = { "scale", "C04", MAXW + 1, &pinit, &setup, &body, &check, &teardown, &describe, NULL, NULL, NULL, NULL };
