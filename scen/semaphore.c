/* semaphore: C12 -- the per-thread semaphore never loses a post.
   Direct use of nsync_mu_semaphore_{init,p,p_with_deadline,v} (internal/sem.h): thread 0
   waits, threads 1..2 post.

   counting rounds (futex flavour): posters issue N posts in total, unsynchronized; the
   waiter must complete exactly N successful waits.  handshake rounds (valid for the binary
   flavour too): one poster, each post is acknowledged before the next is issued.
   Waits are a random mix of p(), p_with_deadline(no deadline) and p_with_deadline(short);
   ETIMEDOUT is only accepted at/after the deadline (same clock as the library) and the wait
   is then repeated.

   Fault enumeration: round r applies plan (r mod 154) to the waiter: every placement of at
   most two injected early returns (EINTR, EAGAIN, or a premature ETIMEDOUT) among its first
   six kernel waits (1 + 6*3 + C(6,2)*9 = 154 plans).  In Mode B the futex is the runtime's
   model (value check and sleep atomic, wake count, absolute timeouts on the virtual clock);
   in Mode A it is the real kernel with the same injection at the system-call wrapper, plus
   random injection.

   Oracles: at every successful wait: successes so far <= posts started (no success without
   a post); the waiter finishes (no post lost: deadlock rule); afterwards a wait with an
   expired deadline reports ETIMEDOUT (no phantom count).  */
#include "sc.h"
#include "sem.h"

static struct {
	nsync_semaphore sem;
	int posts_started, succ, acks;
	int nposters, nposts[3], total;
	int handshake;
	int plan, errs[6];
	int kinds[64];      /* wait kind per attempt */
} S;
enum { CV_POSTS = 0, CV_WAITS_OK, CV_TIMEOUTS, CV_SLEPT, CV_PLANS_WITH_FAULTS, CV_HANDSHAKE_ROUNDS };
static const int ERR3[3] = { EINTR, EAGAIN, ETIMEDOUT };

static void decode_plan (int p, int *errs) {
	int i, j, a, b, k = 1;
	for (i = 0; i < 6; i++) errs[i] = 0;
	if (p == 0) return;
	for (i = 0; i < 6; i++) for (a = 0; a < 3; a++) { if (k == p) { errs[i] = ERR3[a]; return; } k++; }
	for (i = 0; i < 6; i++) for (j = i + 1; j < 6; j++) for (a = 0; a < 3; a++) for (b = 0; b < 3; b++) { if (k == p) { errs[i] = ERR3[a]; errs[j] = ERR3[b]; return; } k++; }
}

static void waiter (void) {
	int attempt = 0;
	while (sc_get (&S.succ) < S.total) {
		int kind = S.kinds[attempt % 64], r = 0; nsync_time dl = nsync_time_no_deadline;
		attempt++;
		if (kind == 0) { RT_OP ("nsync_mu_semaphore_p", nsync_mu_semaphore_p (&S.sem)); }
		else { if (kind == 2) dl = rt_deadline_in (rt_mode_b () ? (int64_t) rt_rand_n (3000) : (int64_t) rt_rand_n (100000));
			RT_OP ("nsync_mu_semaphore_p_with_deadline", r = nsync_mu_semaphore_p_with_deadline (&S.sem, dl)); }
		if (rt_op_sleeps ()) { rt_cover (CV_SLEPT); rt_mark_nontrivial (); }
		if (r == 0) {
			int s = sc_inc (&S.succ) + 1, p = sc_get (&S.posts_started);
			rt_cover (CV_WAITS_OK);
			if (s > p) rt_violation ("sem-success-without-post", kind == 0 ? "p" : "p_with_deadline", "the %d-th successful wait returned although only %d post(s) had been started", s, p);
			if (S.handshake) __atomic_store_n (&S.acks, s, __ATOMIC_RELEASE);
			rt_ev (0x10);
		} else if (r == ETIMEDOUT) {
			rt_cover (CV_TIMEOUTS);
			if (kind != 2) rt_violation ("sem-timeout", "no-deadline", "nsync_mu_semaphore_p_with_deadline (no deadline) returned ETIMEDOUT");
			if (nsync_time_cmp (rt_now (), dl) < 0) rt_violation ("sem-timeout", "early", "ETIMEDOUT at %lld ns, before the deadline %lld ns", (long long) rt_now_ns (), (long long) rt_ts_ns (dl));
			rt_ev (0x11);
		} else rt_violation ("sem-timeout", "result", "nsync_mu_semaphore_p_with_deadline returned %d", r);
		if (attempt > 100000) rt_fatal ("waiter did not converge");
	}
	/* no phantom count */
	{ int r; RT_OP ("nsync_mu_semaphore_p_with_deadline", r = nsync_mu_semaphore_p_with_deadline (&S.sem, nsync_time_zero));
	  if (r != ETIMEDOUT) rt_violation ("sem-success-without-post", "phantom", "after all %d posts were consumed a wait with an expired deadline returned %d instead of ETIMEDOUT", S.total, r); }
}

static void poster (int tid) {
	int i;
	for (i = 0; i < S.nposts[tid]; i++) {
		int n;
		rt_point ("before-post");
		n = sc_inc (&S.posts_started) + 1;
		RT_OP ("nsync_mu_semaphore_v", nsync_mu_semaphore_v (&S.sem));
		rt_cover (CV_POSTS);
		if (S.handshake) { int spins = 0; while (__atomic_load_n (&S.acks, __ATOMIC_ACQUIRE) < n) { rt_yield (); if (!rt_mode_b () && (++spins & 15) == 0) rt_sleep_us (10); if (spins > 100000000) rt_fatal ("no ack"); } }
	}
}
static void body (int tid) { if (tid == 0) waiter (); else poster (tid); }

static int setup (uint64_t seed) {
	int i, binsem = (int) rt_param ("binsem", 0);
	(void) seed;
	memset (&S.sem, 0, sizeof (S.sem));
	nsync_mu_semaphore_init (&S.sem);
	S.posts_started = S.succ = S.acks = 0;
	S.handshake = binsem ? 1 : (rt_rand_n (4) == 0);
	if (S.handshake) rt_cover (CV_HANDSHAKE_ROUNDS);
	S.nposters = S.handshake ? 1 : 1 + (int) rt_rand_n (2);
	S.total = 0;
	for (i = 1; i <= S.nposters; i++) { S.nposts[i] = 1 + (int) rt_rand_n (4); S.total += S.nposts[i]; }
	for (i = 0; i < 64; i++) S.kinds[i] = (int) rt_rand_n (3);
	S.plan = (int) (rt_round () % 154);
	decode_plan (S.plan, S.errs);
	if (!binsem) rt_fault_plan (0, S.errs, 6);
	if (S.plan) rt_cover (CV_PLANS_WITH_FAULTS);
	if (!rt_mode_b () && !binsem) rt_fault_random (20000);
	rt_ev ((uint32_t) (S.plan | S.total << 8 | S.handshake << 12 | S.nposters << 13));
	return (1 + S.nposters);
}
static void check (void) {
	if (S.succ != S.total || S.posts_started != S.total) rt_violation ("sem-conservation", "count", "%d posts issued, %d waits succeeded", S.posts_started, S.succ);
}
static void describe (FILE *f) {
	fprintf (f, "{\"fault_plan\":%d,\"injected_errno_by_kernel_wait\":[%d,%d,%d,%d,%d,%d],\"posters\":%d,\"posts\":%d,\"handshake\":%d}", S.plan, S.errs[0], S.errs[1], S.errs[2], S.errs[3], S.errs[4], S.errs[5], S.nposters, S.total, S.handshake);
}
static void pinit (void) {
	rt_cover_name (CV_POSTS, "posts"); rt_cover_name (CV_WAITS_OK, "successful_waits"); rt_cover_name (CV_TIMEOUTS, "timeouts_at_or_after_deadline"); rt_cover_name (CV_SLEPT, "waits_that_slept");
	rt_cover_name (CV_PLANS_WITH_FAULTS, "rounds_with_a_fault_plan"); rt_cover_name (CV_HANDSHAKE_ROUNDS, "handshake_rounds");
}
rt_scenario rt_scen = { "semaphore", "C12", 3, &pinit, &setup, &body, &check, NULL, &describe, NULL, NULL, NULL };
