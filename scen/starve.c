/* starve: C14 -- a blocked locker cannot be overtaken indefinitely.

   Thread 0 is the victim: it calls nsync_mu_lock (or nsync_mu_rlock) a few times, each time
   while a barger holds the mutex.  Threads 1..2 are bargers that use ONLY try-locks, so they
   never become "has waited" threads, and that re-take the mutex every time the victim has
   been woken and before it runs:
     Mode B: a scheduling adversary keeps a barger running until it yields; a barger that
             holds the mutex yields until the victim is asleep again, then releases and
             immediately tries again;
     Mode A: the victim sleeps 300 us after every wake-up (rt_wake_delay_us) while bargers
             cycle freely.
   Mixes: writer victim / writer bargers, reader victim / writer bargers, writer victim /
   reader bargers, a light mix with two blocking victims, a mix in which a second thread keeps
   arriving through the blocking nsync_mu_lock (each call a fresh, never-queued attempt), and a
   mix with a GROUP of two or three reader victims (woken together by every release, so they pass
   the threshold together; the first of them to acquire clears the shared long-wait bit and a
   barger may get in once more before a straggler re-asserts it: bound + one per other victim), and a mix
   in which the second competitor keeps RETURNING FROM A CV WAIT on the mutex by timeout (woken directly from the cv, never
   transferred to the mutex queue: its re-acquisition is a fresh, never-queued attempt too), and a mix that turns from the
   adversarial schedule to a random one once the victim is about to escalate, with the barger releasing the mutex at the most
   delicate moment it can see: while the long waiter holds the queue spinlock to queue itself again (mix 7; this one belongs to
   C02 as much as to C14: the long waiter must still be handed the mutex), and a mix whose competitor never leaves the mutex
   except inside nsync_mu_wait_with_deadline with an already expired deadline and a condition that is never true (mix 8: every
   such call releases the mutex, queues, times out at once and takes the mutex back through the timeout path).

   Oracles: the number of times the victim sleeps inside ONE lock call is at most
   LONG_WAIT_THRESHOLD + 2 (the constant is read from the tree under test; checked while it is still inside, by the bargers, and on
   return); word-level: no acquiring CAS in a fast path (nsync_mu_lock / rlock / trylock / rtrylock, run
   only by threads that have not queued) succeeds from a word with the long-wait bit set.  */
#include "sc.h"
#include "dll.h"
#include "sem.h"
#include "wait_internal.h"
#include "common.h"    /* internal/common.h of the tree under test: LONG_WAIT_THRESHOLD, MU_LONG_WAIT */

#define BOUND (LONG_WAIT_THRESHOLD + 2)
static struct {
	nsync_mu mu; nsync_cv cv;
	int mix, nbarg, nacq, nvict;
	int victim_done;            /* number of victims finished */
	int barger_holds;           /* some barger holds the mutex (set under it) */
	unsigned long base_sleeps[3];
	int in_call[3];
	int vdone[3];
	int fresh_tid, fresh_in_call; /* mix 4: the fresh locker's id, and whether it is inside nsync_mu_lock */
	int window;                 /* a barger has just released the mutex while a victim was inside a lock call */
	int queued[RT_MAXT];        /* the thread has put itself on the mutex queue during its current lock call */
	unsigned max_sleeps;
	unsigned hist[40];
} S;
enum { CV_ACQ = 0, CV_SLEEPS, CV_BARGE_OK, CV_BARGE_FAIL, CV_LONGWAIT_SET, CV_MAX31, CV_FRESH, CV_GROUP_STRAGGLER, CV_CVRET, CV_CVRET_FORCED, CV_REL_IN_SPIN, CV_MUWAIT_TO };

#define READER_MIX (S.mix == 1 || S.mix == 5)
static int is_victim (int tid) { return (tid < S.nvict); }

static void word_cb (int idx, int op, uint32_t old_v, uint32_t new_v, int ok) {
	int self = rt_self ();
	const char *at;
	(void) idx; (void) op;
	if (!ok || self < 0) return;
	at = rt_thread_at (self);
	if ((new_v & MU_LONG_WAIT) && !(old_v & MU_LONG_WAIT)) rt_cover (CV_LONGWAIT_SET);
	/* a CAS in nsync_mu_lock_slow_ that takes the queue spinlock is the thread queueing itself */
	if (!strcmp (at, "nsync_mu_lock_slow_") && (new_v & 2u) && !(old_v & 2u)) S.queued[self] = 1;
	if ((old_v & MU_LONG_WAIT) != 0) {
		int acquires = ((new_v & SC_MU_WLOCK) && !(old_v & SC_MU_WLOCK)) || ((new_v & SC_MU_RLOCK_FIELD) > (old_v & SC_MU_RLOCK_FIELD));
		/* the fast paths of the four lock entry points are only ever run by a thread that has not queued;
		   nsync_mu_lock_slow_ is run by threads that may have queued (and been woken): those may acquire */
		int never_queued = !strcmp (at, "nsync_mu_trylock") || !strcmp (at, "nsync_mu_rtrylock") || !strcmp (at, "nsync_mu_lock") || !strcmp (at, "nsync_mu_rlock") ||
				   (!strcmp (at, "nsync_mu_lock_slow_") && !S.queued[self]);
		if (acquires && never_queued)
			rt_violation ("acquired-under-long-wait", at, "thread %d acquired the mutex in %s (word %#x -> %#x) although the long-wait bit was set and it had not queued", self, at, old_v, new_v);
	}
}

static void check_overtaken (int v) {
	if (__atomic_load_n (&S.in_call[v], __ATOMIC_ACQUIRE)) {
		unsigned long s = rt_thread_sleeps (v) - S.base_sleeps[v];
		if (s > BOUND + 8) rt_violation ("overtaken", READER_MIX ? "reader-victim" : "writer-victim", "the victim has been sent back to sleep %lu times inside one %s call and is still waiting (bound %d)", s, READER_MIX ? "nsync_mu_rlock" : "nsync_mu_lock", BOUND + (S.mix == 5 ? S.nvict - 1 : 0));
	}
}

static void victim (int tid) {
	int i, reader = READER_MIX, bound = BOUND + (S.mix == 5 ? S.nvict - 1 : 0);
	if (!rt_mode_b ()) rt_wake_delay_us (tid, 300);
	for (i = 0; i < S.nacq; i++) {
		int spins = 0; unsigned s;
		while (!__atomic_load_n (&S.barger_holds, __ATOMIC_ACQUIRE)) { rt_yield (); if (!rt_mode_b () && (++spins & 7) == 0) rt_sleep_us (5); if (spins > 50000000) rt_fatal ("no barger ever held the mutex"); }
		S.queued[tid] = 0;
		S.base_sleeps[tid] = rt_thread_sleeps (tid);
		__atomic_store_n (&S.in_call[tid], 1, __ATOMIC_RELEASE);
		if (reader) RT_OP ("nsync_mu_rlock", nsync_mu_rlock (&S.mu)); else RT_OP ("nsync_mu_lock", nsync_mu_lock (&S.mu));
		s = rt_op_sleeps ();
		__atomic_store_n (&S.in_call[tid], 0, __ATOMIC_RELEASE);
		rt_cover (CV_ACQ); rt_cover_add (CV_SLEEPS, (long) s);
		if (s > S.max_sleeps) S.max_sleeps = s;
		S.hist[s < 39 ? s : 39]++;
		if (s >= 31) rt_cover (CV_MAX31);
		if (s) rt_mark_nontrivial ();
		if (S.mix == 5 && s > LONG_WAIT_THRESHOLD + 1) rt_cover (CV_GROUP_STRAGGLER);
		if ((int) s > bound) rt_violation ("overtaken", reader ? "reader-victim" : "writer-victim", "%s slept %u times before it acquired (bound %d = LONG_WAIT_THRESHOLD + 2%s)", reader ? "nsync_mu_rlock" : "nsync_mu_lock", s, bound, S.mix == 5 ? " + one per other victim of the reader group" : "");
		rt_ev (0x100u + s);
		rt_point ("victim-section");
		if (reader) RT_OP ("nsync_mu_runlock", nsync_mu_runlock (&S.mu)); else RT_OP ("nsync_mu_unlock", nsync_mu_unlock (&S.mu));
	}
	__atomic_store_n (&S.vdone[tid], 1, __ATOMIC_RELEASE);
	__atomic_fetch_add (&S.victim_done, 1, __ATOMIC_ACQ_REL);
}

/* loop guards: by iteration count under the serialized scheduler, by wall clock (generous: the machine may be heavily loaded and the
   victims sleep 300 us after every wake-up) with free-running threads */
static int overdue (int *guard, int64_t t0) { return (rt_mode_b () ? ++*guard > 3000000 : ((++*guard & 1023) == 0 && rt_now_ns () - t0 > 240ll * 1000000000ll)); }

static int late_stage (void) { return (__atomic_load_n (&S.in_call[0], __ATOMIC_ACQUIRE) && rt_thread_sleeps (0) - S.base_sleeps[0] + 2 >= LONG_WAIT_THRESHOLD); }

static void barger (int tid) {
	int reader = (S.mix == 2), guard = 0; int64_t t0 = rt_now_ns ();
	(void) tid;
	while (__atomic_load_n (&S.victim_done, __ATOMIC_ACQUIRE) < S.nvict) {
		int r, v;
		if (reader) RT_OP ("nsync_mu_rtrylock", r = nsync_mu_rtrylock (&S.mu)); else RT_OP ("nsync_mu_trylock", r = nsync_mu_trylock (&S.mu));
		if (r) {
			int spins = 0;
			rt_cover (CV_BARGE_OK);
			__atomic_store_n (&S.barger_holds, 1, __ATOMIC_RELEASE);
			/* hold until every unfinished victim that is inside a lock call sleeps (Mode B), or briefly (Mode A) */
			if (rt_mode_b ()) {
				for (;;) {
					int all = 1;
					/* every unfinished victim must have arrived in its lock call and be asleep */
					for (v = 0; v < S.nvict; v++) if (!__atomic_load_n (&S.vdone[v], __ATOMIC_ACQUIRE) && !(__atomic_load_n (&S.in_call[v], __ATOMIC_ACQUIRE) && rt_thread_in_wait (v))) all = 0;
					/* a fresh locker that is inside its call but awake (just woken) also gets its failing turn before the release */
					if (S.fresh_tid > 0 && __atomic_load_n (&S.fresh_in_call, __ATOMIC_ACQUIRE) && !rt_thread_in_wait (S.fresh_tid)) all = 0;
					/* mix 7: once the victim is a long waiter (or about to be), release while it holds the queue spinlock to re-queue itself */
					if (S.mix == 7 && late_stage () && (sc_word (&S.mu.word) & 2u) != 0 && !rt_thread_in_wait (0)) { rt_cover (CV_REL_IN_SPIN); break; }
					if (all || __atomic_load_n (&S.victim_done, __ATOMIC_ACQUIRE) >= S.nvict || ++spins > 20000) break;
					rt_yield ();
				}
			} else { volatile int k; for (k = 0; k < 2000; k++) { } }
			__atomic_store_n (&S.barger_holds, 0, __ATOMIC_RELEASE);
			if (reader) RT_OP ("nsync_mu_runlock", nsync_mu_runlock (&S.mu)); else RT_OP ("nsync_mu_unlock", nsync_mu_unlock (&S.mu));
			__atomic_store_n (&S.window, 1, __ATOMIC_RELEASE);
		} else {
			rt_cover (CV_BARGE_FAIL);
			/* mix 6, Mode B: the try-lock failed on a FREE mutex, i.e. the long-wait bit keeps this thread out while the woken victim has
			   not run yet: exactly now the competitor asleep on the cv gets its timeout (its turn comes before the victim's) */
			if (S.mix == 6 && rt_mode_b ()) { uint32_t wd = sc_word (&S.mu.word); if ((wd & MU_LONG_WAIT) != 0 && (wd & SC_MU_ANY_LOCK) == 0) { rt_force_fire (); rt_cover (CV_CVRET_FORCED); } }
			rt_yield ();
		}
		for (v = 0; v < S.nvict; v++) check_overtaken (v);
		if (overdue (&guard, t0)) rt_fatal ("barger loop did not end");
	}
}
/* mix 4: a thread that keeps arriving through the BLOCKING entry point: every call is a fresh, never-queued attempt */
static void fresh_locker (int tid) {
	int guard = 0; int64_t t0 = rt_now_ns ();
	while (__atomic_load_n (&S.victim_done, __ATOMIC_ACQUIRE) < S.nvict) {
		/* only when the mutex looks free: otherwise this thread would just queue behind the victim for the rest of the round */
		if ((sc_word (&S.mu.word) & SC_MU_ANY_LOCK) == 0 && __atomic_exchange_n (&S.window, 0, __ATOMIC_ACQ_REL)) {
			/* arrive exactly when the mutex has just been released and the woken victim has not run yet */
			S.queued[tid] = 0;
			__atomic_store_n (&S.fresh_in_call, 1, __ATOMIC_RELEASE);
			RT_OP ("nsync_mu_lock", nsync_mu_lock (&S.mu));
			__atomic_store_n (&S.fresh_in_call, 0, __ATOMIC_RELEASE);
			rt_cover (CV_FRESH);
			rt_point ("fresh-section");
			RT_OP ("nsync_mu_unlock", nsync_mu_unlock (&S.mu));
		}
		rt_yield ();
		if (!rt_mode_b () && (guard & 15) == 0) rt_sleep_us (20);
		if (overdue (&guard, t0)) rt_fatal ("fresh locker loop did not end");
	}
}
/* mix 6: a competitor that keeps returning from a timed-out cv wait: each return re-acquires the mutex as a thread that has not
   queued on it (it was woken from the cv by its own deadline) */
static void cv_returner (int tid) {
	int guard = 0; int64_t t0 = rt_now_ns ();
	/* fresh_in_call: a barger that holds the mutex lets this thread, when it is inside a call but awake, take its turn before releasing */
	__atomic_store_n (&S.fresh_in_call, 1, __ATOMIC_RELEASE);
	RT_OP ("nsync_mu_lock", nsync_mu_lock (&S.mu));
	while (__atomic_load_n (&S.victim_done, __ATOMIC_ACQUIRE) < S.nvict) {
		/* nobody ever signals S.cv: every return is a timeout, woken directly from the cv */
		S.queued[tid] = 0;
		RT_OP ("nsync_cv_wait_with_deadline", nsync_cv_wait_with_deadline (&S.cv, &S.mu, rt_deadline_in (rt_mode_b () ? (rt_rand_n (2) ? 300 + (int64_t) rt_rand_n (3000) : 2000000) : 20000 + (int64_t) rt_rand_n (200000)), NULL));
		rt_cover (CV_CVRET);
		if (overdue (&guard, t0)) rt_fatal ("cv returner loop did not end");
	}
	__atomic_store_n (&S.fresh_in_call, 0, __ATOMIC_RELEASE);
	RT_OP ("nsync_mu_unlock", nsync_mu_unlock (&S.mu));
}
/* mix 8: the competitor holds the mutex and gives it up only inside timed-out conditional waits */
static int never_true (const void *v) { (void) v; return (0); }
static void muwait_competitor (int tid) {
	int guard = 0, v; int64_t t0 = rt_now_ns ();
	(void) tid;
	RT_OP ("nsync_mu_lock", nsync_mu_lock (&S.mu));
	__atomic_store_n (&S.barger_holds, 1, __ATOMIC_RELEASE);
	while (__atomic_load_n (&S.victim_done, __ATOMIC_ACQUIRE) < S.nvict) {
		int spins = 0;
		/* hold until every unfinished victim that is inside a lock call sleeps (Mode B), or briefly (Mode A) */
		if (rt_mode_b ()) {
			for (;;) {
				int all = 1;
				for (v = 0; v < S.nvict; v++) if (!__atomic_load_n (&S.vdone[v], __ATOMIC_ACQUIRE) && !(__atomic_load_n (&S.in_call[v], __ATOMIC_ACQUIRE) && rt_thread_in_wait (v))) all = 0;
				if (all || __atomic_load_n (&S.victim_done, __ATOMIC_ACQUIRE) >= S.nvict || ++spins > 20000) break;
				rt_yield ();
			}
		} else { volatile int k; for (k = 0; k < 2000; k++) { } }
		RT_OP ("nsync_mu_wait_with_deadline", nsync_mu_wait_with_deadline (&S.mu, &never_true, NULL, NULL, rt_now (), NULL));
		rt_cover (CV_MUWAIT_TO);
		for (v = 0; v < S.nvict; v++) check_overtaken (v);
		if (overdue (&guard, t0)) rt_fatal ("muwait competitor loop did not end");
	}
	__atomic_store_n (&S.barger_holds, 0, __ATOMIC_RELEASE);
	RT_OP ("nsync_mu_unlock", nsync_mu_unlock (&S.mu));
}
static void body (int tid) { if (is_victim (tid)) victim (tid); else if (S.mix == 4 && tid == S.nvict + S.nbarg - 1 && S.nbarg > 1) fresh_locker (tid); else if (S.mix == 6 && tid == S.nvict + S.nbarg - 1) cv_returner (tid); else if (S.mix == 8) muwait_competitor (tid); else barger (tid); }

static int adversary (int self, int forced, const int *run, int n) {
	static int chain;
	int i, self_victim = (self >= 0 && is_victim (self));
	if (S.mix == 7 && late_stage ()) return (-1);     /* the scheduler's own random policy from here on */
	if (!forced) { for (i = 0; i < n; i++) if (run[i] == self) return (self); }
	/* the running thread yields or cannot continue.  A yielding barger first lets the other non-victims take their
	   turn (at most one round of them), then a victim (which takes its failing turn); a yielding or sleeping
	   victim hands over to a barger. */
	if (!self_victim && chain < S.nbarg - 1) {
		for (i = 0; i < n; i++) if (run[i] != self && !is_victim (run[i])) { chain++; return (run[i]); }
	}
	chain = 0;
	for (i = 0; i < n; i++) if (run[i] != self && is_victim (run[i]) == !self_victim) return (run[i]);
	for (i = 0; i < n; i++) if (run[i] != self) return (run[i]);
	return (-1);
}

static int setup (uint64_t seed) {
	(void) seed;
	nsync_mu_init (&S.mu); nsync_cv_init (&S.cv);
	S.mix = (int) rt_param ("mix", -1); if (S.mix < 0) S.mix = (int) rt_rand_n (9);
	S.nvict = S.mix == 3 ? 2 : S.mix == 5 ? 2 + (int) rt_rand_n (2) : 1;
	S.nbarg = 1 + (int) rt_rand_n (2);
	if (S.mix == 5 && S.nvict == 3) S.nbarg = 1;
	if (S.mix == 4) S.nbarg = 2;      /* one try-lock barger and one fresh blocking locker */
	if (S.mix == 7 || S.mix == 8) S.nbarg = 1;
	if (S.mix == 6) S.nbarg = 2;      /* one try-lock barger and one thread that keeps returning from timed-out cv waits */
	S.nacq = 1 + (int) rt_rand_n (2);
	S.victim_done = 0; S.barger_holds = 0; S.window = 0; S.fresh_in_call = 0; S.fresh_tid = (S.mix == 4 || S.mix == 6) ? S.nvict + S.nbarg - 1 : 0; S.in_call[0] = S.in_call[1] = S.in_call[2] = 0; S.vdone[0] = S.vdone[1] = S.vdone[2] = 0; memset (S.queued, 0, sizeof (S.queued));
	rt_watch_word (0, &S.mu.word, &word_cb);
	rt_ev ((uint32_t) (S.mix | S.nbarg << 4 | S.nacq << 8));
	return (S.nvict + S.nbarg);
}
static void check (void) { if ((sc_word (&S.mu.word) & (SC_MU_ANY_LOCK | 2u | MU_LONG_WAIT)) != 0) rt_violation ("final-word", "held", "after every thread finished the mutex word is %#x", sc_word (&S.mu.word)); }
static void teardown (void) { rt_watch_word (0, NULL, NULL); }
static void describe (FILE *f) { static const char *const mn[] = { "writer victim / trylock bargers", "reader victim / trylock bargers", "writer victim / rtrylock bargers", "two writer victims / trylock bargers", "writer victim / trylock barger + fresh blocking lockers", "group of reader victims / trylock bargers", "writer victim / trylock barger + a thread returning from timed-out cv waits", "writer victim / trylock barger, random schedule after escalation, release while the victim holds the queue spinlock", "writer victim / competitor that leaves the mutex only inside timed-out conditional waits" };
	fprintf (f, "{\"mix\":\"%s\",\"bargers\":%d,\"victim_acquisitions\":%d,\"max_sleeps_in_one_call_so_far\":%u}", mn[S.mix], S.nbarg, S.nacq, S.max_sleeps); }
static void summary (FILE *f) { int i; fprintf (f, "\"sleeps_histogram\":["); for (i = 0; i < 40; i++) fprintf (f, "%s%u", i ? "," : "", S.hist[i]); fprintf (f, "]"); }
static void pinit (void) {
	rt_cover_name (CV_ACQ, "victim_acquisitions"); rt_cover_name (CV_SLEEPS, "victim_sleeps_total"); rt_cover_name (CV_BARGE_OK, "barger_trylock_ok"); rt_cover_name (CV_BARGE_FAIL, "barger_trylock_failed");
	rt_cover_name (CV_LONGWAIT_SET, "long_wait_bit_set"); rt_cover_name (CV_MAX31, "acquisitions_that_needed_31_or_more_sleeps"); rt_cover_name (CV_FRESH, "fresh_blocking_attempts_in_the_window"); rt_cover_name (CV_CVRET, "returns_from_timed_out_cv_waits_by_a_competitor"); rt_cover_name (CV_MUWAIT_TO, "timed_out_conditional_waits_by_a_competitor"); rt_cover_name (CV_REL_IN_SPIN, "releases_while_the_long_waiter_held_the_queue_spinlock"); rt_cover_name (CV_CVRET_FORCED, "cv_timeouts_fired_in_the_window_after_escalation"); rt_cover_name (CV_GROUP_STRAGGLER, "reader_group_stragglers_overtaken_after_the_bit_was_cleared");
}
rt_scenario rt_scen = { "starve", "C14", 4, &pinit, &setup, &body, &check, &teardown, &describe, &summary, NULL, &adversary };
