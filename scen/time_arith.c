/* time_arith: C18 -- nsync_time arithmetic is exact on normalized values.
   Differential against __int128 nanosecond arithmetic, run with UBSan on.
   Round 0: the full boundary grid squared (seconds x nanoseconds boundaries) for
   add / sub / cmp / (a+b)-b, every boundary argument of ms / us / s_ns, and the
   zero <= t <= no_deadline clause.  Later rounds: 200 000 random pairs each and 200 000
   random 32-bit arguments of ms / us.  Pairs whose exact result (or the library's
   intermediate seconds sum/difference) leaves the time_t range are skipped: the
   statement excludes overflow of the seconds field.  */
#include "sc.h"
#include <limits.h>

typedef __int128 i128;
#define NS 1000000000ll
static unsigned long n_add, n_sub, n_cmp, n_roundtrip, n_skipped, n_ms, n_us, n_sns, n_bounds;

static const int64_t SEC[] = { 0, 1, -1, 2, -2, 59, 1000, 1000000000ll, 1700000000ll, 2147483647ll, 2147483648ll, -2147483648ll, -2147483649ll, 4294967295ll, 4294967296ll,
	INT64_MAX / NS, INT64_MAX / NS + 1, INT64_MAX / 2, INT64_MAX / 2 + 1, INT64_MIN / 2, INT64_MIN / 2 - 1, INT64_MAX - 1, INT64_MAX, INT64_MIN + 1, INT64_MIN };
static const long NSEC[] = { 0, 1, 2, 499999999, 500000000, 500000001, 999999998, 999999999 };
#define NSEC_N (sizeof (NSEC) / sizeof (NSEC[0]))
#define SEC_N (sizeof (SEC) / sizeof (SEC[0]))

static i128 to_ns (nsync_time t) { return ((i128) t.tv_sec * NS + t.tv_nsec); }
static int in_range (i128 s) { return (s >= (i128) INT64_MIN && s <= (i128) INT64_MAX); }
static i128 fdiv (i128 a, i128 b) { i128 q = a / b; if ((a % b != 0) && ((a < 0) != (b < 0))) q--; return (q); }
static nsync_time mk (int64_t s, long ns) { nsync_time t; memset (&t, 0, sizeof (t)); t.tv_sec = (time_t) s; t.tv_nsec = ns; return (t); }
static void fmt (char *b, size_t n, nsync_time t) { snprintf (b, n, "{%lld,%ld}", (long long) t.tv_sec, (long) t.tv_nsec); }

static void bad (const char *op, nsync_time a, nsync_time b, nsync_time got, const char *why) {
	char x[64], y[64], z[64]; fmt (x, sizeof (x), a); fmt (y, sizeof (y), b); fmt (z, sizeof (z), got);
	rt_violation ("time-differential", op, "%s(%s, %s) = %s: %s", op, x, y, z, why);
}

static void check_pair (nsync_time a, nsync_time b) {
	i128 A = to_ns (a), B = to_ns (b);
	int c, want;
	/* cmp: total order consistent with the sign of a-b */
	c = nsync_time_cmp (a, b); want = (A > B) - (A < B); n_cmp++;
	if ((c > 0) - (c < 0) != want) bad ("nsync_time_cmp", a, b, mk (c, 0), "sign differs from the sign of a-b");
	if (((nsync_time_cmp (b, a) > 0) - (nsync_time_cmp (b, a) < 0)) != -want) bad ("nsync_time_cmp", b, a, mk (0, 0), "not antisymmetric");
	/* add */
	if (in_range ((i128) a.tv_sec + b.tv_sec) && in_range (fdiv (A + B, NS))) {
		nsync_time r = nsync_time_add (a, b); n_add++;
		if (r.tv_nsec < 0 || r.tv_nsec >= NS) bad ("nsync_time_add", a, b, r, "result is not normalized");
		if (to_ns (r) != A + B) bad ("nsync_time_add", a, b, r, "differs from integer addition of seconds*1e9+nanoseconds");
		/* (a+b)-b == a */
		if (in_range ((i128) r.tv_sec - b.tv_sec) && in_range ((i128) r.tv_sec - b.tv_sec - 1)) {
			nsync_time back = nsync_time_sub (r, b); n_roundtrip++;
			if (nsync_time_cmp (back, a) != 0 || back.tv_sec != a.tv_sec || back.tv_nsec != a.tv_nsec) bad ("nsync_time_sub(nsync_time_add(a,b),b)", a, b, back, "(a+b)-b differs from a");
		}
	} else n_skipped++;
	/* sub */
	if (in_range ((i128) a.tv_sec - b.tv_sec) && in_range ((i128) a.tv_sec - b.tv_sec - 1) && in_range (fdiv (A - B, NS))) {
		nsync_time r = nsync_time_sub (a, b); int s; n_sub++;
		if (r.tv_nsec < 0 || r.tv_nsec >= NS) bad ("nsync_time_sub", a, b, r, "result is not normalized");
		if (to_ns (r) != A - B) bad ("nsync_time_sub", a, b, r, "differs from integer subtraction of seconds*1e9+nanoseconds");
		s = nsync_time_cmp (r, nsync_time_zero);
		if (((s > 0) - (s < 0)) != want) bad ("nsync_time_cmp(nsync_time_sub(a,b),0)", a, b, r, "cmp(a,b) is not the sign of a-b");
	} else n_skipped++;
	rt_distinct_add ((uint64_t) (A * 1000003 + B) ^ (uint64_t) ((A * 1000003 + B) >> 64));
}

static void check_scalar (unsigned v) {
	nsync_time t;
	t = nsync_time_ms (v); n_ms++;
	if (t.tv_nsec < 0 || t.tv_nsec >= NS || to_ns (t) != (i128) v * 1000000) bad ("nsync_time_ms", mk (v, 0), mk (0, 0), t, "is not v milliseconds");
	t = nsync_time_us (v); n_us++;
	if (t.tv_nsec < 0 || t.tv_nsec >= NS || to_ns (t) != (i128) v * 1000) bad ("nsync_time_us", mk (v, 0), mk (0, 0), t, "is not v microseconds");
}
static void check_sns (int64_t s, unsigned ns) {
	nsync_time t = nsync_time_s_ns ((time_t) s, ns); n_sns++;
	if ((int64_t) t.tv_sec != s || (unsigned long) t.tv_nsec != ns) bad ("nsync_time_s_ns", mk (s, (long) ns), mk (0, 0), t, "does not hold the given seconds and nanoseconds");
}
static void check_bounds (nsync_time t) {   /* non-negative t */
	n_bounds++;
	if (nsync_time_cmp (nsync_time_zero, t) > 0) bad ("nsync_time_cmp(zero,t)", nsync_time_zero, t, t, "nsync_time_zero > t for a non-negative t");
	if (nsync_time_cmp (t, nsync_time_no_deadline) > 0) bad ("nsync_time_cmp(t,no_deadline)", t, nsync_time_no_deadline, t, "t > nsync_time_no_deadline");
}

static int64_t rnd_sec (void) {
	switch (rt_rand_n (6)) {
	case 0: return ((int64_t) rt_rand ());
	case 1: return ((int64_t) (rt_rand () >> 33) - (1ll << 30));
	case 2: return ((int64_t) rt_rand_n (4000000000u));
	case 3: return (SEC[rt_rand_n (SEC_N)] + (int64_t) rt_rand_n (5) - 2 > 0 || 1 ? SEC[rt_rand_n (SEC_N)] / 3 : 0);
	case 4: return ((int64_t) (rt_rand () >> 2));
	default: return (-(int64_t) (rt_rand () >> 2));
	}
}
static long rnd_nsec (void) { return (rt_rand_n (4) == 0 ? NSEC[rt_rand_n (NSEC_N)] : (long) rt_rand_n (1000000000u)); }

static void body (int tid) {
	unsigned i, j, k, l;
	(void) tid;
	if (rt_round () == 0) {
		for (i = 0; i < SEC_N; i++) for (j = 0; j < NSEC_N; j++) {
			nsync_time a = mk (SEC[i], NSEC[j]);
			if (SEC[i] >= 0) check_bounds (a);
			check_sns (SEC[i], (unsigned) NSEC[j]);
			for (k = 0; k < SEC_N; k++) for (l = 0; l < NSEC_N; l++) check_pair (a, mk (SEC[k], NSEC[l]));
		}
		{ static const unsigned V[] = { 0, 1, 2, 999, 1000, 1001, 999999, 1000000, 1000001, 999999999, 1000000000, 1000000001, 2147483647u, 2147483648u, 4294967u, 4294968u, 4294967294u, 4294967295u };
		  for (i = 0; i < sizeof (V) / sizeof (V[0]); i++) check_scalar (V[i]); }
		check_bounds (nsync_time_zero); check_bounds (nsync_time_no_deadline);
	} else {
		for (i = 0; i < 200000; i++) { nsync_time a = mk (rnd_sec (), rnd_nsec ()), b = mk (rnd_sec (), rnd_nsec ()); check_pair (a, b); if (a.tv_sec >= 0) check_bounds (a); }
		for (i = 0; i < 200000; i++) { check_scalar ((unsigned) rt_rand ()); check_sns ((int64_t) rt_rand (), rt_rand_n (1000000000u)); }
	}
	rt_mark_nontrivial ();
}
static int setup (uint64_t seed) { (void) seed; return (1); }
static void check (void) { }
static void describe (FILE *f) { fprintf (f, "{\"kind\":\"%s\",\"example\":\"nsync_time_add({%lld,999999999},{0,1}) compared with 128-bit arithmetic\"}", rt_round () == 0 ? "boundary grid squared" : "random pairs", (long long) SEC[9]); }
static void summary (FILE *f) { fprintf (f, "\"x_add_checked\":%lu,\"x_sub_checked\":%lu,\"x_cmp_checked\":%lu,\"x_roundtrip_checked\":%lu,\"x_pairs_skipped_for_overflow\":%lu,\"x_ms_checked\":%lu,\"x_us_checked\":%lu,\"x_s_ns_checked\":%lu,\"x_bounds_checked\":%lu",
	n_add, n_sub, n_cmp, n_roundtrip, n_skipped, n_ms, n_us, n_sns, n_bounds); }
rt_scenario rt_scen = { "time_arith", "C18", 1, NULL, &setup, &body, &check, NULL, &describe, &summary, NULL, NULL };
