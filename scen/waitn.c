/* waitn: C11 -- nsync_wait_n reports a ready object or a real timeout, and cleans up.

   Objects of a round: notes (fresh / with near deadline), counters (1 or 2 away from zero),
   condition variables; 1..5 per call (5 exercises the heap bookkeeping path, <= 4 the stack
   path).  Every object is wrapped in harness-defined nsync_waitable_funcs_s that delegate to
   the real tables and log ready_time / enqueue / dequeue; the lock / unlock callbacks passed
   with the mutex log too.  Threads 0..w-1 are waiters (one nsync_wait_n call each, with or
   without mutex, with or without deadline), the remaining thread is the trigger thread: it
   makes some objects ready (notify, add -1 ... to zero, signal/broadcast), in random order
   and with random gaps.  If a waiter has no deadline, at least one of its objects is among
   those the trigger thread will make ready (so the call must return: deadlock rule = "does
   not keep sleeping after one becomes ready").

   Oracles per call:
     result i < count  => object i is ready at return (note notified / counter zero / a wake-up
                          of that cv started after this call enqueued on it);
     result == count   => clock >= deadline, and no note/counter of the call had been made
                          ready before the call started;
     event order       => every enqueue precedes the unlock, the unlock precedes the lock, the
                          lock precedes the return, every enqueued object is dequeued before
                          the return; a call that found an object ready at entry neither
                          enqueues nor unlocks;
     after return      => every object is triggered again (notify / zero / broadcast) by the
                          main thread and freed: a leftover registration is a
                          stack/heap-use-after-return under ASan, a non-empty waiter list
                          (nsync_counter_free / nsync_note_free assert it, the cv list is
                          inspected), or a crash.  */
#include "sc.h"

#define MAXOBJ 6
#define MAXW 3
enum { T_NOTE, T_COUNTER, T_CV };
struct obj { int type; void *v; const struct nsync_waitable_funcs_s *real; int idx; int near_dl; int will_fire; uint64_t trig_start, trig_done; int steps_to_zero; };
struct call { int n, objs[5], with_mu, reader, timed, dl_ns; int result; uint64_t t_call, t_ret; int64_t dl_abs_ns, at_ns;
	uint64_t enq[5], deq[5], t_unlock, t_lock; int n_enq, n_deq, n_unlock, n_lock; };
static struct {
	nsync_mu mu; nsync_cv cv[2]; nsync_note note[3]; nsync_counter ctr[2];
	struct obj o[MAXOBJ]; int nobj;
	struct call c[MAXW]; int nw;
	int trig_order[MAXOBJ]; int ntrig;
	int W, R;
} S;
enum { CV_CALLS = 0, CV_READY, CV_TIMEOUT, CV_SLEPT, CV_HEAP_PATH, CV_READY_AT_ENTRY, CV_WITH_MU, CV_RETRIGGERS, CV_IDLE };

/* ---- wrapped waitable functions ---- */
static __thread struct call *cur_call;
static int pos_of (struct call *c, struct obj *o) { int i; for (i = 0; i < c->n; i++) if (&S.o[c->objs[i]] == o) return (i); return (-1); }
static nsync_time w_ready_time (void *v, struct nsync_waiter_s *nw) { struct obj *o = (struct obj *) v; return ((*o->real->ready_time) (o->v, nw)); }
static int w_enqueue (void *v, struct nsync_waiter_s *nw) {
	struct obj *o = (struct obj *) v; int r, p = cur_call ? pos_of (cur_call, o) : -1;
	if (p >= 0) { cur_call->enq[p] = rt_stamp (); cur_call->n_enq++; }
	r = (*o->real->enqueue) (o->v, nw);
	return (r);
}
static int w_dequeue (void *v, struct nsync_waiter_s *nw) {
	struct obj *o = (struct obj *) v; int r, p = cur_call ? pos_of (cur_call, o) : -1;
	r = (*o->real->dequeue) (o->v, nw);
	if (p >= 0) { cur_call->deq[p] = rt_stamp (); cur_call->n_deq++; }
	return (r);
}
static const struct nsync_waitable_funcs_s wrapped_funcs = { &w_ready_time, &w_enqueue, &w_dequeue };

static void cb_lock (void *m) { nsync_mu_lock ((nsync_mu *) m); if (cur_call) { cur_call->t_lock = rt_stamp (); cur_call->n_lock++; } }
static void cb_unlock (void *m) { if (cur_call) { cur_call->t_unlock = rt_stamp (); cur_call->n_unlock++; } nsync_mu_unlock ((nsync_mu *) m); }
static void cb_rlock (void *m) { nsync_mu_rlock ((nsync_mu *) m); if (cur_call) { cur_call->t_lock = rt_stamp (); cur_call->n_lock++; } }
static void cb_runlock (void *m) { if (cur_call) { cur_call->t_unlock = rt_stamp (); cur_call->n_unlock++; } nsync_mu_runlock ((nsync_mu *) m); }

static int obj_ready_now (struct obj *o) {
	if (o->type == T_NOTE) return (nsync_note_is_notified ((nsync_note) o->v));
	if (o->type == T_COUNTER) return (nsync_counter_value ((nsync_counter) o->v) == 0);
	return (0);
}

static void waiter (int tid) {
	struct call *c = &S.c[tid];
	struct nsync_waitable_s ws[5]; struct nsync_waitable_s *pw[5]; int i, r;
	nsync_time dl = c->timed ? rt_deadline_in (c->dl_ns) : nsync_time_no_deadline;
	for (i = 0; i < c->n; i++) { ws[i].v = &S.o[c->objs[i]]; ws[i].funcs = &wrapped_funcs; pw[i] = &ws[i]; }
	c->dl_abs_ns = rt_ts_ns (dl);
	if (c->with_mu) { if (c->reader) nsync_mu_rlock (&S.mu); else nsync_mu_lock (&S.mu); rt_cover (CV_WITH_MU); }
	cur_call = c;
	c->t_call = rt_stamp ();
	if (c->with_mu) RT_OP ("nsync_wait_n", r = nsync_wait_n (&S.mu, c->reader ? &cb_rlock : &cb_lock, c->reader ? &cb_runlock : &cb_unlock, dl, c->n, pw));
	else RT_OP ("nsync_wait_n", r = nsync_wait_n (NULL, NULL, NULL, dl, c->n, pw));
	c->at_ns = rt_now_ns ();
	c->t_ret = rt_stamp ();
	cur_call = NULL;
	c->result = r;
	rt_cover (CV_CALLS); if (c->n == 5) rt_cover (CV_HEAP_PATH);
	if (rt_op_sleeps ()) { rt_cover (CV_SLEPT); rt_mark_nontrivial (); }
	rt_ev ((uint32_t) (0x300 | r | tid << 4));
	/* checks that need the mutex still held / the present moment */
	if (r < 0 || r > c->n) rt_violation ("waitn-result", "range", "nsync_wait_n returned %d for %d objects", r, c->n);
	if (r < c->n) {
		struct obj *o = &S.o[c->objs[r]];
		rt_cover (CV_READY);
		if (o->type != T_CV && !obj_ready_now (o)) rt_violation ("waitn-result", o->type == T_NOTE ? "note-not-ready" : "counter-not-ready", "nsync_wait_n returned index %d but that %s is not ready", r, o->type == T_NOTE ? "note is not notified" : "counter is not zero");
		if (o->type == T_CV) {
			uint64_t ts = __atomic_load_n (&o->trig_start, __ATOMIC_ACQUIRE);
			if (ts == 0) rt_violation ("waitn-result", "cv-not-signalled", "nsync_wait_n returned the index of a condition variable that nobody has signalled");
		}
	} else {
		rt_cover (CV_TIMEOUT);
		if (!c->timed) rt_violation ("waitn-result", "count-without-deadline", "nsync_wait_n without deadline returned count");
		if (c->at_ns < c->dl_abs_ns) rt_violation ("waitn-result", "early-timeout", "nsync_wait_n returned count at %lld ns, before its deadline %lld ns", (long long) c->at_ns, (long long) c->dl_abs_ns);
		for (i = 0; i < c->n; i++) { struct obj *o = &S.o[c->objs[i]]; uint64_t td = __atomic_load_n (&o->trig_done, __ATOMIC_ACQUIRE);
			if (o->type != T_CV && td != 0 && td < c->t_call) rt_violation ("waitn-result", "ready-object-missed", "nsync_wait_n returned count although object %d had been made ready before the call started", i); }
	}
	if (c->with_mu) {
		int isr = nsync_mu_is_reader (&S.mu);
		if (isr != c->reader) rt_violation ("mode", "nsync_wait_n", "nsync_wait_n returned holding the mutex in %s mode", isr ? "read" : "write");
		if (c->reader) nsync_mu_runlock (&S.mu); else nsync_mu_unlock (&S.mu);
	}
}

static void trigger_obj (struct obj *o) {
	__atomic_store_n (&o->trig_start, rt_stamp (), __ATOMIC_RELEASE);
	if (o->type == T_NOTE) RT_OP ("nsync_note_notify", nsync_note_notify ((nsync_note) o->v));
	else if (o->type == T_COUNTER) { while (nsync_counter_value ((nsync_counter) o->v) != 0) RT_OP ("nsync_counter_add", nsync_counter_add ((nsync_counter) o->v, -1)); }
	else { nsync_mu_lock (&S.mu); nsync_mu_unlock (&S.mu); if (rt_rand_n (2)) RT_OP ("nsync_cv_signal", nsync_cv_signal ((nsync_cv *) o->v)); else RT_OP ("nsync_cv_broadcast", nsync_cv_broadcast ((nsync_cv *) o->v)); }
	__atomic_store_n (&o->trig_done, rt_stamp (), __ATOMIC_RELEASE);
}

static void trigger_thread (void) {
	int i, t, round;
	for (i = 0; i < S.ntrig; i++) {
		int g = (int) rt_rand_n (6);
		while (g-- > 0) rt_point ("trigger-gap");
		if (!rt_mode_b () && rt_rand_n (3) == 0) rt_sleep_us (rt_rand_n (200));
		trigger_obj (&S.o[S.trig_order[i]]);
	}
	/* a cv wake-up only reaches waiters already queued: keep waking cvs until every waiter returned */
	for (round = 0; round < 100000; round++) {
		int pending = 0;
		for (t = 0; t < S.nw; t++) if (!rt_thread_done (t)) pending = 1;
		if (!pending) break;
		rt_wait_quiescent ();
		for (i = 0; i < S.nobj; i++) if (S.o[i].type == T_CV && S.o[i].will_fire) { nsync_mu_lock (&S.mu); nsync_mu_unlock (&S.mu); RT_OP ("nsync_cv_broadcast", nsync_cv_broadcast ((nsync_cv *) S.o[i].v)); }
		rt_yield ();
		if (!rt_mode_b ()) rt_sleep_us (50);
	}
}
/* Mode B idle oracle: nothing is runnable, only deadlines are pending.  A call asleep inside nsync_wait_n although the
   trigger of one of its notes or counters has RETURNED keeps sleeping after an object became ready (C11), even if its own
   deadline would rescue it later.  (A cv wake-up may legitimately have gone to another waiter, so cvs are not judged.)  */
static void idle_check (void) {
	int t, i;
	rt_cover (CV_IDLE);
	for (t = 0; t < S.nw; t++) {
		struct call *c = &S.c[t];
		if (!rt_thread_blocked (t) || strcmp (rt_thread_op (t), "nsync_wait_n") != 0 || !strcmp (rt_thread_at (t), "nsync_mu_lock_slow_")) continue;
		for (i = 0; i < c->n; i++) {
			struct obj *o = &S.o[c->objs[i]];
			uint64_t td = __atomic_load_n (&o->trig_done, __ATOMIC_ACQUIRE);
			if (o->type == T_NOTE && o->v == (void *) S.note[1] && td == 0) td = __atomic_load_n (&S.o[2].trig_done, __ATOMIC_ACQUIRE);   /* a child note fires with its parent */
			if (o->type != T_CV && td != 0)
				rt_violation ("waitn-asleep-ready", o->type == T_NOTE ? "note" : "counter", "idle instant (only deadlines pending): object %d of thread %d's nsync_wait_n (a %s) was made ready and the call that did it has returned, yet the thread is still asleep inside nsync_wait_n", i, t, o->type == T_NOTE ? "note" : "counter");
		}
	}
}
static void body (int tid) { if (tid < S.nw) waiter (tid); else trigger_thread (); }

static int setup (uint64_t seed) {
	int i, t, n = 0;
	(void) seed;
	nsync_mu_init (&S.mu); S.W = S.R = 0;
	memset (S.o, 0, sizeof (S.o)); memset (S.c, 0, sizeof (S.c));
	for (i = 0; i < 2; i++) { nsync_cv_init (&S.cv[i]); S.o[n].type = T_CV; S.o[n].v = &S.cv[i]; S.o[n].real = &nsync_cv_waitable_funcs; n++; }
	for (i = 0; i < 3; i++) { int near_dl = (i == 2 && rt_rand_n (2)); S.note[i] = nsync_note_new (i == 1 ? S.note[0] : NULL, near_dl ? rt_deadline_in (rt_mode_b () ? 3000 : 150000) : nsync_time_no_deadline);
		S.o[n].type = T_NOTE; S.o[n].v = S.note[i]; S.o[n].real = &nsync_note_waitable_funcs; S.o[n].near_dl = near_dl; n++; }
	for (i = 0; i < 1; i++) { S.ctr[i] = nsync_counter_new (1 + rt_rand_n (2)); S.o[n].type = T_COUNTER; S.o[n].v = S.ctr[i]; S.o[n].real = &nsync_counter_waitable_funcs; n++; }
	S.nobj = n;
	for (i = 0; i < n; i++) { S.o[i].idx = i; S.o[i].will_fire = rt_rand_n (2); }
	S.nw = 1 + (int) rt_rand_n (MAXW);
	for (t = 0; t < S.nw; t++) {
		struct call *c = &S.c[t]; int any_fire = 0;
		c->n = 1 + (int) rt_rand_n (5);
		for (i = 0; i < c->n; i++) { c->objs[i] = (int) rt_rand_n ((unsigned) n); }
		/* nsync_wait_n may be given the same object twice?  the API does not say; keep them distinct */
		for (i = 0; i < c->n; i++) { int j, dup; do { dup = 0; for (j = 0; j < i; j++) if (c->objs[j] == c->objs[i]) dup = 1; if (dup) c->objs[i] = (c->objs[i] + 1) % n; } while (dup); }
		c->with_mu = 0;
		for (i = 0; i < c->n; i++) if (S.o[c->objs[i]].type == T_CV) c->with_mu = 1;     /* waiting on a cv requires the mutex */
		if (!c->with_mu) c->with_mu = rt_rand_n (3) == 0;
		c->reader = c->with_mu && rt_rand_n (3) == 0;
		c->timed = rt_rand_n (2);
		c->dl_ns = rt_mode_b () ? (int) rt_rand_n (8000) : (int) rt_rand_n (250000);
		for (i = 0; i < c->n; i++) if (S.o[c->objs[i]].will_fire || S.o[c->objs[i]].near_dl) any_fire = 1;
		if (!c->timed && !any_fire) S.o[c->objs[0]].will_fire = 1;
		rt_ev ((uint32_t) (c->n | c->with_mu << 3 | c->reader << 4 | c->timed << 5 | c->objs[0] << 6));
	}
	/* a child note fires with its parent */
	S.ntrig = 0;
	for (i = 0; i < n; i++) if (S.o[i].will_fire) S.trig_order[S.ntrig++] = i;
	for (i = S.ntrig - 1; i > 0; i--) { int j = (int) rt_rand_n ((unsigned) i + 1), x = S.trig_order[i]; S.trig_order[i] = S.trig_order[j]; S.trig_order[j] = x; }
	return (S.nw + 1);
}

static void check (void) {
	int t, i;
	for (t = 0; t < S.nw; t++) {
		struct call *c = &S.c[t];
		if (c->n_enq == 0) {
			rt_cover (CV_READY_AT_ENTRY);
			if (c->n_unlock || c->n_lock) rt_violation ("waitn-order", "unlock-without-registration", "the call found an object ready at entry (no enqueue) but still released the mutex");
			continue;
		}
		if (c->n_deq != c->n_enq) rt_violation ("waitn-order", "dequeue-count", "%d objects were enqueued on but %d dequeued before nsync_wait_n returned", c->n_enq, c->n_deq);
		for (i = 0; i < c->n; i++) {
			if (c->enq[i] && !c->deq[i]) rt_violation ("waitn-order", "not-dequeued", "object %d was enqueued on and never dequeued", i);
			if (c->enq[i] && (c->enq[i] < c->t_call || c->deq[i] > c->t_ret)) rt_violation ("waitn-order", "outside-call", "registration activity outside the call");
			if (i > 0 && c->enq[i] && c->enq[i - 1] && c->enq[i] < c->enq[i - 1]) rt_violation ("waitn-order", "enqueue-order", "objects were not enqueued in array order");
		}
		if (c->with_mu && c->n_enq == c->n) {
			if (c->n_unlock != 1 || c->n_lock != 1) rt_violation ("waitn-order", "lock-count", "with all %d objects registered the mutex must be released once and re-acquired once (unlock %d, lock %d)", c->n, c->n_unlock, c->n_lock);
			for (i = 0; i < c->n; i++) if (c->enq[i] > c->t_unlock) rt_violation ("waitn-order", "unlock-before-registration", "the mutex was released before the call had registered on object %d (atomic release-and-wait broken)", i);
			if (!(c->t_unlock < c->t_lock && c->t_lock < c->t_ret)) rt_violation ("waitn-order", "lock-order", "unlock / lock / return are out of order");
			for (i = 0; i < c->n; i++) if (c->deq[i] > c->t_lock) { /* dequeue after relock is allowed by the statement ("on return registered on none"); not an error */ }
		}
		if (c->with_mu && c->n_enq < c->n && (c->n_unlock || c->n_lock)) rt_violation ("waitn-order", "unlock-partial", "an object became ready during registration, yet the mutex was released");
	}
	/* re-trigger everything: leftover registrations would be touched now */
	for (i = 0; i < S.nobj; i++) {
		rt_cover (CV_RETRIGGERS);
		if (S.o[i].type == T_NOTE) nsync_note_notify ((nsync_note) S.o[i].v);
		else if (S.o[i].type == T_COUNTER) { while (nsync_counter_value ((nsync_counter) S.o[i].v) != 0) nsync_counter_add ((nsync_counter) S.o[i].v, -1); }
		else { nsync_cv_broadcast ((nsync_cv *) S.o[i].v); if (((nsync_cv *) S.o[i].v)->waiters != NULL) rt_violation ("leftover-registration", "cv", "a condition variable's waiter list is not empty after every nsync_wait_n returned"); }
	}
}
static void teardown (void) { nsync_note_free (S.note[1]); nsync_note_free (S.note[0]); nsync_note_free (S.note[2]); nsync_counter_free (S.ctr[0]); }
static void describe (FILE *f) {
	static const char *const tn[] = { "note", "counter", "cv" }; int t, i;
	fprintf (f, "{\"calls\":[");
	for (t = 0; t < S.nw; t++) { struct call *c = &S.c[t]; fprintf (f, "%s\"wait_n(", t ? "," : ""); for (i = 0; i < c->n; i++) fprintf (f, "%s%s%d%s", i ? "," : "", tn[S.o[c->objs[i]].type], c->objs[i], S.o[c->objs[i]].will_fire ? "*" : ""); fprintf (f, ")%s%s%s -> %d\"", c->with_mu ? (c->reader ? " rmu" : " mu") : "", c->timed ? " timed" : "", "", c->result); }
	fprintf (f, "],\"trigger_order\":["); for (i = 0; i < S.ntrig; i++) fprintf (f, "%s%d", i ? "," : "", S.trig_order[i]); fprintf (f, "]}");
}
static void pinit (void) {
	rt_cover_name (CV_CALLS, "wait_n_calls"); rt_cover_name (CV_READY, "returned_ready_index"); rt_cover_name (CV_TIMEOUT, "returned_count"); rt_cover_name (CV_SLEPT, "calls_that_slept");
	rt_cover_name (CV_HEAP_PATH, "calls_with_5_objects_heap_path"); rt_cover_name (CV_READY_AT_ENTRY, "calls_ready_at_entry"); rt_cover_name (CV_WITH_MU, "calls_with_mutex"); rt_cover_name (CV_RETRIGGERS, "objects_retriggered_after_return"); rt_cover_name (CV_IDLE, "idle_instants_checked");
}
rt_scenario rt_scen = { "waitn", "C11", 4, &pinit, &setup, &body, &check, &teardown, &describe, NULL, NULL, NULL, &idle_check };
