#!/usr/bin/env python3
"""selftest/mkmut.py <name> <file> <<< 'old text\n====\nnew text'   -- make selftest/mutants/<name>.patch
The replacement must match exactly once in /repo's HEAD version of <file>."""
import sys, os, subprocess, tempfile, shutil
name, path = sys.argv[1], sys.argv[2]
old, new = sys.stdin.read().split('\n====\n')
new = new.rstrip('\n')
old = old.rstrip('\n')
src = subprocess.check_output(['git', '-C', '/repo', 'show', 'HEAD:' + path], text=True)
if src.count(old) != 1:
    sys.exit('pattern matches %d times in %s' % (src.count(old), path))
d = tempfile.mkdtemp()
try:
    os.makedirs(os.path.join(d, 'a', os.path.dirname(path)))
    os.makedirs(os.path.join(d, 'b', os.path.dirname(path)))
    open(os.path.join(d, 'a', path), 'w').write(src)
    open(os.path.join(d, 'b', path), 'w').write(src.replace(old, new))
    p = subprocess.run(['diff', '-u', 'a/' + path, 'b/' + path], cwd=d, stdout=subprocess.PIPE, text=True)
    out = os.path.join(os.path.dirname(os.path.abspath(__file__)), 'mutants', name + '.patch')
    if os.path.exists(out):
        with open(out, 'a') as f:
            f.write(p.stdout)
    else:
        open(out, 'w').write(p.stdout)
    print(out, len(p.stdout.splitlines()), 'lines')
finally:
    shutil.rmtree(d)
