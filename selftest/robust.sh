#!/bin/bash
# Detection robustness: run every mutant and every seeded change against the quick check of its property with several
# VERIF_SEED values and report how many of the runs caught it.  A change caught by seed 1 only is a marginal detection.
# usage: selftest/robust.sh "<seeds>" [pattern]        e.g.  selftest/robust.sh "2 3 4" C0
cd "$(dirname "$0")/.."
seeds=${1:-"2 3"}; pat=${2:-}
T=$(mktemp -d ${TMPDIR:-/tmp}/nsync-robust.XXXXXX); trap 'rm -rf "$T"' EXIT
for p in selftest/mutants/*${pat}*.patch seeded/*${pat}*/patch.diff; do
  [ -f "$p" ] || continue
  case $p in seeded/*) name=$(basename $(dirname $p)); prop=$(python3 -c "import json; print(json.load(open('$(dirname $p)/meta.json'))['property'])");; *) name=$(basename $p .patch); prop=${name%%-*};; esac
  rm -rf "$T/r"; mkdir -p "$T/r"; git -C /repo archive HEAD | tar -x -C "$T/r"
  patch -p1 -s -d "$T/r" < $p || { echo "PATCH-FAILED $name"; continue; }
  hit=0; n=0
  for sd in $seeds; do n=$((n+1)); VERIF_SEED=$sd VERIF_REPO="$T/r" bin/check $prop --tier quick >/dev/null 2>&1; [ $? -eq 1 ] && hit=$((hit+1)); done
  [ $hit -eq $n ] && echo "ok      $name $hit/$n" || echo "WEAK    $name $hit/$n"
done
