#!/bin/bash
# Mutation self-test: apply each selftest/mutants/<prop>-<name>.patch to a scratch copy of
# /repo's HEAD (outside /repo and /verif), run the quick check of <prop> against the copy
# (VERIF_REPO), expect exit 1; remove the copy.   usage: selftest/run.sh [pattern]
cd "$(dirname "$0")/.."
pat=${1:-}
T=$(mktemp -d ${TMPDIR:-/tmp}/nsync-mut.XXXXXX)
trap 'rm -rf "$T"' EXIT
ok=0; miss=0
for p in selftest/mutants/*${pat}*.patch; do
  name=$(basename $p .patch); prop=${name%%-*}
  rm -rf "$T/r"; mkdir -p "$T/r"; git -C /repo archive HEAD | tar -x -C "$T/r"
  if ! patch -p1 -s -d "$T/r" < $p; then echo "PATCH-FAILED $name"; miss=$((miss+1)); continue; fi
  out=$(VERIF_REPO="$T/r" VERIF_SCALE=${VERIF_SCALE:-1} bin/check $prop --tier quick 2>&1); rc=$?
  if [ $rc -eq 1 ]; then echo "CAUGHT  $name: $(echo "$out" | grep -m1 '  key=' | cut -c1-160)"; ok=$((ok+1));
  else echo "MISSED  $name (rc=$rc): $(echo "$out" | tail -1 | cut -c1-200)"; miss=$((miss+1)); fi
done
echo "caught=$ok missed=$miss"
[ $miss -eq 0 ]
