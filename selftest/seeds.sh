#!/bin/bash
# Regression over the independently written breaking changes under seeded/: apply each seeded/<id>/patch.diff to a
# scratch copy of /repo's HEAD (outside /repo and /verif), run the quick check of its property (meta.json) against the
# copy, expect exit 1; remove the copy.     usage: selftest/seeds.sh [pattern]
cd "$(dirname "$0")/.."
pat=${1:-}
T=$(mktemp -d ${TMPDIR:-/tmp}/nsync-seedreg.XXXXXX)
trap 'rm -rf "$T"' EXIT
ok=0; miss=0
for d in seeded/*${pat}*/; do
  id=$(basename $d); prop=$(python3 -c "import json,sys; print(json.load(open('$d/meta.json'))['property'])")
  rm -rf "$T/r"; mkdir -p "$T/r"; git -C /repo archive HEAD | tar -x -C "$T/r"
  if ! patch -p1 -s -d "$T/r" < $d/patch.diff; then echo "PATCH-FAILED $id"; miss=$((miss+1)); continue; fi
  out=$(VERIF_REPO="$T/r" VERIF_SCALE=${VERIF_SCALE:-1} VERIF_SEED=${VERIF_SEED:-1} bin/check $prop --tier quick 2>&1); rc=$?
  if [ $rc -eq 1 ]; then echo "CAUGHT  $id: $(echo "$out" | grep -m1 '  key=' | cut -c1-160)"; ok=$((ok+1));
  else echo "MISSED  $id (rc=$rc): $(echo "$out" | tail -1 | cut -c1-200)"; miss=$((miss+1)); fi
done
echo "caught=$ok missed=$miss"
[ $miss -eq 0 ]
